#!/bin/bash
# selftest/run.sh [pattern] [tier] — must-fail corpus: every mutant under selftest/mutants must be reported
# (VIOLATION, exit 1) by the check of the property in its file name.  Mutants are applied through a
# go/packages overlay (gowp mutant), never to /repo itself.  Also reports whether the baseline suite
# still passes with the mutant (in a scratch worktree) when SUITE=1.
cd /verif
export VERIF_EVIDENCE_DIR=/verif/.work/evidence-scratch  # keep the evidence of the unchanged tree
pat=${1:-}; tier=${2:-quick}
fail=0
for f in /verif/selftest/mutants/*${pat}*.diff; do
  id=$(basename $f | cut -d- -f1)
  out=$(bin/gowp mutant $f $id $tier 2>&1)
  line=$(echo "$out" | grep '^MUTANT' | tail -1)
  res=$(echo "$line" | sed 's/.*result=\([a-z]*\).*/\1/')
  case "$res" in
    killed) echo "KILLED   $(basename $f .diff)  $(echo "$line" | sed 's/.*failing=\[//; s/\] aborted.*//' | cut -c1-140)";;
    degraded) ;;
    *) res=survived;;
  esac
  if [ "$res" != killed ]; then
    # not decided by the deductive part alone: run the whole check (with its bounded
    # stand-ins) against /repo with the patch applied, and undo it straight afterwards
    if git -C /repo diff --quiet && git -C /repo apply --check $f 2>/dev/null; then
      git -C /repo apply $f
      full=$(./check $id $tier 2>&1); rc=$?
      git -C /repo apply -R $f
      if [ $rc -eq 1 ] && echo "$full" | grep -q '^VIOLATION'; then
        echo "KILLED   $(basename $f .diff)  [deductive part: $res] $(echo "$full" | grep '^VIOLATION' | head -1 | sed 's/.*replay=[^ ]* //' | cut -c1-110)"
      else
        echo "SURVIVED $(basename $f .diff)"; echo "$full" | tail -3; fail=1
      fi
    else
      echo "SKIPPED  $(basename $f .diff) (/repo not clean or patch does not apply)"; fail=1
    fi
  fi
done
exit $fail
