#!/bin/bash
# selftest/run.sh [pattern] [tier] — must-fail corpus: every mutant under selftest/mutants must be reported
# (VIOLATION, exit 1) by the check of the property in its file name.  Mutants are applied through a
# go/packages overlay (gowp mutant), never to /repo itself.  Also reports whether the baseline suite
# still passes with the mutant (in a scratch worktree) when SUITE=1.
cd /verif
pat=${1:-}; tier=${2:-quick}
fail=0
for f in selftest/mutants/*${pat}*.diff; do
  id=$(basename $f | cut -d- -f1)
  out=$(bin/gowp mutant $f $id $tier 2>&1)
  line=$(echo "$out" | grep '^MUTANT' | tail -1)
  res=$(echo "$line" | sed 's/.*result=\([a-z]*\).*/\1/')
  case "$res" in
    killed) echo "KILLED   $(basename $f .diff)  $(echo "$line" | sed 's/.*failing=\[//; s/\] aborted.*//' | cut -c1-140)";;
    degraded) echo "DEGRADED $(basename $f .diff)  $(echo "$line" | sed 's/.*aborted=\[//' | cut -c1-140)"; deg=1;;
    *) echo "SURVIVED $(basename $f .diff)"; echo "$out" | tail -3; fail=1;;
  esac
done
exit $fail
