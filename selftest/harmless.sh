#!/bin/bash
# selftest/harmless.sh — must-pass corpus: behaviour-preserving refactorings
# (extracted helper, renamed locals, reordered independent statements, early
# return instead of a negated condition). None may produce a VIOLATION. A
# contract that names a renamed local cannot be evaluated: that shows as
# DEGRADED (nothing counted as proved, bounded stand-ins decide), never as an
# alarm. File name: H<nn>-<what>.diff; the property is given in the table below.
cd /verif
export VERIF_EVIDENCE_DIR=/verif/.work/evidence-scratch  # keep the evidence of the unchanged tree
declare -A prop=( [H01]=C05 [H02]=C10 [H03]=C15 [H04]=C03 [H05]=C06 [H06]=C13 [H07]=C07 [H08]=C17 [H09]=C05 [H10]=C01 [H11]=C18 [H12]=C04 [H13]=C11 [H14]=C01 [H15]=C12 [H16]=C08 )
fail=0
for f in /verif/selftest/harmless/${1:-}*.diff; do
  h=$(basename $f | cut -d- -f1); id=${prop[$h]}
  git -C /repo diff --quiet || { echo "SKIPPED $(basename $f) (/repo not clean)"; fail=1; continue; }
  git -C /repo apply $f
  out=$(./check $id quick 2>&1); rc=$?
  git -C /repo apply -R $f
  v=$(echo "$out" | grep -c '^VIOLATION'); d=$(echo "$out" | grep -c '^DEGRADED')
  if [ $rc -eq 0 ] && [ $v -eq 0 ]; then echo "PASS    $(basename $f .diff) property=$id degraded=$d"
  else echo "ALARM   $(basename $f .diff) property=$id"; echo "$out" | grep '^VIOLATION' | head -3; fail=1; fi
done
exit $fail
