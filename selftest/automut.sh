#!/bin/bash
# selftest/automut.sh — measure the checks against changes nobody hand-picked (DESIGN 0.6).
#   1. bin/automut writes every single-edit syntactic mutant of /repo's non-test sources
#      (operators: comparison / logical / arithmetic operator swaps, negated / constant
#      conditions, deleted statements / guards / defers, break <-> continue, nil instead of err,
#      literal changes, dropped case alternatives, dropped omitempty / inline tag options)
#      under /verif/.work/automut (git-ignored);
#   2. stage1: go build + the repository's own test suite through `go build -overlay`;
#   3. stage2: for suite-passing mutants the quick bounded stand-ins of the properties anchored
#      at the mutated file (VERIF_OVERLAY), stage3: the deductive part (gowp mutant, restricted to
#      the mutated function - verification is modular) for what the stand-ins did not report;
#   4. report: counts and the list of survivors for review.
# Nothing is written to /repo. Takes about 1.5 h on 16 cores; not part of any registered check.
cd /verif
export GOFLAGS=-mod=mod GOPROXY=off GOSUMDB=off GOTOOLCHAIN=local
[ -x bin/automut ] || (cd engine && go build -o /verif/bin/automut ./cmd/automut) || exit 2
case "${1:-all}" in
  gen)    rm -rf .work/automut && bin/automut -out /verif/.work/automut ;;
  all)    rm -rf .work/automut && bin/automut -out /verif/.work/automut &&
          python3 tools/automut_run.py stage1 && python3 tools/automut_run.py stage2 &&
          python3 tools/automut_run.py stage3 && python3 tools/automut_run.py report ;;
  *)      python3 tools/automut_run.py "$@" ;;
esac
