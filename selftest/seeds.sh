#!/bin/bash
# selftest/seeds.sh [name-pattern] [tier] — must-fail corpus, part 2: every stored seeded change
# (/verif/seeded/*/patch.diff, written by independent sub-agents; see DESIGN 0.5) is applied to
# /repo, the quick check of its property is run, and the change is undone. Each must be reported.
cd /verif
export VERIF_EVIDENCE_DIR=/verif/.work/evidence-scratch  # keep the evidence of the unchanged tree
pat=${1:-}; tier=${2:-quick}; fail=0
for d in /verif/seeded/*${pat}*/; do
  n=$(basename $d); id=$(jq -r .property $d/meta.json 2>/dev/null); [ -n "$id" ] && [ "$id" != null ] || id=${n:0:3}
  if [ "$(jq -r '.not_counted // false' $d/meta.json 2>/dev/null)" = true ]; then echo "OUTSIDE $n (changes behaviour only outside the property's domain as read here; see meta.json)"; continue; fi
  git -C /repo diff --quiet || { echo "SKIPPED $n (/repo not clean)"; fail=1; continue; }
  git -C /repo apply $d/patch.diff 2>/dev/null || { echo "STALE   $n (patch no longer applies)"; continue; }
  t0=$(date +%s)
  out=$(./check $id $tier 2>&1); rc=$?
  git -C /repo apply -R $d/patch.diff
  v=$(echo "$out" | grep '^VIOLATION' | head -1 | sed 's/^VIOLATION property=[A-Z0-9]* replay=[^ ]* //' | cut -c1-90)
  if [ $rc -ne 0 ] && [ -n "$v" ]; then echo "KILLED  $n property=$id $(( $(date +%s)-t0 ))s  $v"
  else echo "MISSED  $n property=$id"; fail=1; fi
done
exit $fail
