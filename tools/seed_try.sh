#!/bin/bash
# tools/seed_try.sh <seed-name> <check-id> [tier] — apply a stored seed to /repo, run one check, undo.
name=$1; id=$2; tier=${3:-quick}
export VERIF_EVIDENCE_DIR=/verif/.work/evidence-scratch  # keep the evidence of the unchanged tree
p=/verif/seeded/$name/patch.diff
git -C /repo diff --quiet || { echo "/repo not clean"; exit 2; }
git -C /repo apply $p || exit 2
(cd /verif && ./check $id $tier 2>&1 | grep -E "^(VIOLATION|KNOWN|DEGRADED|property)" | cut -c1-260)
git -C /repo apply -R $p
git -C /repo status --short | head -2
