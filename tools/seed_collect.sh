#!/bin/bash
# tools/seed_collect.sh <property-id> <worktree> <seed-name> [check ids...]
# Confirms a seeded change (compiles, suite green, demo fails with / passes without),
# stores it under /verif/seeded/<name>/ and runs the property's quick check against it.
set -u
export VERIF_EVIDENCE_DIR=/verif/.work/evidence-scratch  # keep the evidence of the unchanged tree
id=$1; wt=$2; name=$3; shift 3
checks="${@:-$id}"
export GOFLAGS=-mod=mod GOPROXY=off GOSUMDB=off GOTOOLCHAIN=local
out=/verif/seeded/$name; mkdir -p $out
cd $wt || exit 2
git diff -- . ':!*_test.go' > $out/patch.diff
demos=$(git status --porcelain | awk '/^\?\?/ {print $2}' | grep _test.go)
for d in $demos; do mkdir -p $out/demo/$(dirname $d); cp $d $out/demo/$d; done
[ -s $out/patch.diff ] || { echo "empty patch"; exit 2; }
build=$(go build ./... 2>&1 | tail -3)
# suite without the demo
mkdir -p /tmp/seed-aside-$$; for d in $demos; do mv $d /tmp/seed-aside-$$/$(echo $d | tr / _); done
suite=$(go test -vet=off -count=1 ./... 2>&1 | grep -v "no test files" | tail -8)
suite_ok=$(echo "$suite" | grep -c "^FAIL\|^---")
for d in $demos; do mv /tmp/seed-aside-$$/$(echo $d | tr / _) $d; done; rmdir /tmp/seed-aside-$$
demo_with=$(go test -vet=off -count=1 -run TestSeedDemo ./... 2>&1 | grep -E "^(ok|FAIL|---|panic)" | head -5)
git apply -R $out/patch.diff
demo_without=$(go test -vet=off -count=1 -run TestSeedDemo ./... 2>&1 | grep -E "^(ok|FAIL|---|panic)" | head -5)
git apply $out/patch.diff
# run the checks on /repo with the patch applied
res=""
if git -C /repo apply --check $out/patch.diff 2>/dev/null; then
  git -C /repo apply $out/patch.diff
  for c in $checks; do
    r=$(cd /verif && ./check $c quick 2>&1 | grep -E "^(VIOLATION|KNOWN|DEGRADED|property)" | cut -c1-300)
    res="$res
[check $c quick]
$r"
  done
  git -C /repo apply -R $out/patch.diff
else
  res="patch does not apply to /repo"
fi
cat > $out/confirm.txt <<EOT
build: ${build:-ok}
suite with change (demo aside): failing lines=$suite_ok
$suite
demo with change:
$demo_with
demo without change:
$demo_without
checks against /repo with patch applied:$res
EOT
cat $out/confirm.txt
