#!/usr/bin/env python3
"""Regenerate /verif/MANIFEST.json from props/*.json and not_applicable.json."""
import json, glob, os, subprocess
vd = os.path.dirname(os.path.dirname(os.path.abspath(__file__)))
ids = [json.loads(l)['id'] for l in open(os.path.join(vd, 'properties.jsonl'))]
checks = []
claimed = set()
for f in sorted(glob.glob(os.path.join(vd, 'props', 'C*.json'))):
    p = json.load(open(f))
    if not p.get('claimed', True):
        continue
    claimed.add(p['id'])
    checks.append({
        "property_id": p['id'],
        "quick_cmd": "./check %s quick" % p['id'],
        "thorough_cmd": "./check %s thorough" % p['id'],
        "evidence_file": "/verif/evidence/%s.json" % p['id'],
        "replay_cmd_template": "./check %s quick --replay {path}" % p['id'],
        "engine": "gowp",
        "level_claimed": {"category": p['level'], "text": p['level_text'], "design_ref": p.get('design_ref', 'DESIGN.md section 7')},
        "level_note": p['level_note'],
        "technique": p.get('technique', 'contract-based deductive verification: weakest-precondition VCs over go/ssa of /repo, discharged by z3/cvc5'),
    })
na_reasons = json.load(open(os.path.join(vd, 'not_applicable.json')))
na = []
for i in ids:
    if i not in claimed:
        na.append({"property_id": i, "reason": na_reasons.get(i, "check not built yet (contract-based deductive check under construction; see DESIGN.md section 7)")})
hooks = []
try:
    out = subprocess.check_output(['git', '-C', '/repo', 'log', '--format=%H %s'], text=True)
    for line in out.splitlines():
        h, s = line.split(' ', 1)
        if s.startswith('verif:'):
            hooks.append(h)
except Exception:
    pass
m = {
    "version": 1,
    "setup_cmd": "cd /verif && ./setup.sh",
    "hooks": {"guard": "verif", "enable": "go build -tags verif (contracts are comment-only files contracts_verif.go behind //go:build verif; the engine loads /repo with -tags=verif)",
              "baseline_off_cmd": "cd /repo && go test -vet=off -count=1 ./...", "source_commits": list(reversed(hooks)), "add_only": True},
    "engines": [{"name": "gowp", "path": "/verif/engine", "serves_properties": sorted(claimed),
                 "kind_free_text": "weakest-precondition / symbolic-execution VC generator over go/ssa (NaiveForm) of the current /repo tree; contracts are //@ comments in guarded files in /repo; obligations discharged by z3 4.8.12 / z3 5.1.0 / cvc5 1.0.3"}],
    "checks": checks,
    "notes": "Every check rebuilds the SSA of /repo's working tree, regenerates all obligations and discharges them; a VIOLATION names the failed obligation. DEGRADED (exit status unchanged) means a function of the cone no longer matches its contract and nothing is counted as proved for it; the bounded stand-ins then decide. Open known findings (/verif/known_findings.txt, DESIGN.md section 8) print KNOWN-FINDING lines and do not fail a check. See DESIGN.md section 0 for what was built and measured.",
    "not_applicable": na,
}
json.dump(m, open(os.path.join(vd, 'MANIFEST.json'), 'w'), indent=1)
print("claimed:", sorted(claimed))
