#!/usr/bin/env python3
"""tools/automut_run.py <stage> [options] - drive the syntactic mutants of bin/automut.

Nothing here writes to /repo: a mutant is tried through `go build -overlay`
(suite and bounded stand-ins) and through the engine's own overlay (`gowp mutant`).

  stage1              build + the repository's own test suite for every mutant
                      -> <dir>/stage1.txt: compile-fail | tests-fail | tests-pass
  stage2 [--ded]      for every tests-pass mutant: the quick bounded stand-ins of the
                      properties anchored at the mutated file (cheapest first, stop at the
                      first kill); with --ded afterwards the deductive part (gowp mutant)
                      -> <dir>/stage2.json
  deductive N         deductive part alone on a sample of N tests-pass mutants (statistics)
  report              table of the results
"""
import json, os, subprocess, sys, glob, random, time
from concurrent.futures import ThreadPoolExecutor

V = '/verif'
OUT = os.environ.get('AUTOMUT_DIR', V + '/.work/automut')
ENV = dict(os.environ, GOFLAGS='-mod=mod', GOPROXY='off', GOSUMDB='off', GOTOOLCHAIN='local', VERIF_TIER='quick')
# cheapest checks first
ORDER = ['C17', 'C18', 'C15', 'C11', 'C05', 'C16', 'C12', 'C10', 'C07', 'C14', 'C01', 'C06', 'C04', 'C08', 'C03', 'C09', 'C02', 'C13', 'C19']


def props_by_file():
    m = {}
    for line in open(V + '/properties.jsonl'):
        p = json.loads(line)
        for f in p['anchors']['files']:
            m.setdefault(f, []).append(p['id'])
    return m


def mutants():
    return sorted(glob.glob(OUT + '/m*/'))


def meta(d):
    return json.load(open(d + 'meta.json'))


def sh(cmd, cwd, env=None, timeout=1500):
    try:
        r = subprocess.run(cmd, shell=True, cwd=cwd, env=env or ENV, capture_output=True, text=True, timeout=timeout)
        return r.returncode, r.stdout + r.stderr
    except subprocess.TimeoutExpired:
        return 124, 'timeout'


def stage1(d):
    if os.path.exists(d + 'stage1.txt'):
        return
    ov = d + 'ov.json'
    rc, out = sh(f'go build -overlay {ov} ./...', '/repo')
    if rc != 0:
        res = 'compile-fail'
    else:
        rc, out = sh(f'go test -overlay {ov} -vet=off -count=1 -timeout 300s ./...', '/repo', timeout=400)
        res = 'tests-pass' if rc == 0 else 'tests-fail'
    open(d + 'stage1.txt', 'w').write(res + '\n')


def bounded_cmds(pid):
    cfg = json.load(open(f'{V}/props/{pid}.json'))
    return [(b['name'], b['cmd']) for b in cfg.get('bounded', []) if b.get('quick')]


def stage2(d, ded):
    if os.path.exists(d + 'stage2.json'):
        return
    m = meta(d)
    rel = props_by_file().get(m['file'], [])
    rel = [p for p in ORDER if p in rel]
    res = {'props': rel, 'killed_by': None, 'tried': []}
    env = dict(ENV, VERIF_OVERLAY=d + 'ov.json')
    for pid in rel:
        for name, cmd in bounded_cmds(pid):
            t0 = time.time()
            rc, out = sh(cmd, V, env)
            res['tried'].append([pid, name, rc, round(time.time() - t0, 1)])
            if rc != 0:
                res['killed_by'] = f'bounded {pid}:{name}'
                break
        if res['killed_by']:
            break
    if not res['killed_by'] and ded:
        for pid in rel:
            t0 = time.time()
            rc, out = sh(f'bin/gowp mutant {d}patch.diff {pid} quick', V, ENV)
            line = [l for l in out.splitlines() if l.startswith('MUTANT')]
            r = line[-1].split('result=')[1].split()[0] if line else 'error'
            res['tried'].append([pid, 'deductive', r, round(time.time() - t0, 1)])
            if r == 'killed':
                res['killed_by'] = f'deductive {pid}: ' + line[-1].split('failing=')[1][:200]
                break
    json.dump(res, open(d + 'stage2.json', 'w'), indent=1)


PKG = {'': 'pipeline', 'ordered': 'ordered', 'signature': 'signature', 'jwkutil': 'jwkutil', 'warning': 'warning', 'internal/env': 'env'}
_cones = None


def norm_key(k):
    import re
    k = re.sub(r'\[.*\]', '', k)
    k = re.sub(r'\$\d+.*$', '', k)
    return k


def cones():
    """function key (generic arguments and closure suffixes stripped) -> properties whose cone holds it"""
    global _cones
    if _cones is None:
        c = {}
        for f in sorted(glob.glob(V + '/props/C*.json')):
            cfg = json.load(open(f))
            for fn in cfg.get('functions', []):
                c.setdefault(norm_key(fn['key']), set()).add(cfg['id'])
        _cones = c
    return _cones


def func_key(m):
    pkg = PKG.get(os.path.dirname(m['file']), os.path.dirname(m['file']))
    f = m['func']
    if f.startswith('(*'):
        return '(*' + pkg + '.' + f[2:]
    if f.startswith('('):
        return '(' + pkg + '.' + f[1:]
    return pkg + '.' + f


def deductive_only(d):
    if os.path.exists(d + 'ded.json'):
        return
    m = meta(d)
    under = cones().get(func_key(m), set())
    rel = [p for p in ORDER if p in under]
    res = {'props': rel, 'func_key': func_key(m), 'killed_by': None, 'degraded': [], 'tried': []}
    for pid in rel:
        t0 = time.time()
        rc, out = sh(f'bin/gowp mutant {d}patch.diff {pid} quick', V, dict(ENV, GOWP_MUTANT_FUNC=func_key(m)))
        line = [l for l in out.splitlines() if l.startswith('MUTANT')]
        r = line[-1].split('result=')[1].split()[0] if line else 'error'
        res['tried'].append([pid, r, round(time.time() - t0, 1)])
        if r == 'degraded':
            res['degraded'].append(pid)
        if r == 'killed':
            res['killed_by'] = pid + ': ' + line[-1].split('failing=')[1][:200]
            break
    json.dump(res, open(d + 'ded.json', 'w'), indent=1)


def main():
    stage = sys.argv[1]
    cones()
    workers = int(os.environ.get('AUTOMUT_JOBS', '12'))
    ms = mutants()
    if stage == 'stage1':
        with ThreadPoolExecutor(workers) as ex:
            list(ex.map(stage1, ms))
    elif stage == 'stage2':
        ded = '--ded' in sys.argv
        todo = [d for d in ms if open(d + 'stage1.txt').read().strip() == 'tests-pass']
        with ThreadPoolExecutor(workers) as ex:
            list(ex.map(lambda d: stage2(d, ded), todo))
    elif stage == 'stage3':
        # deductive part for the mutants no bounded stand-in reported
        todo = []
        for d in ms:
            if os.path.exists(d + 'stage2.json'):
                r = json.load(open(d + 'stage2.json'))
                if not r['killed_by'] and r['props']:
                    todo.append(d)
        with ThreadPoolExecutor(max(1, workers // 4)) as ex:
            list(ex.map(deductive_only, todo))
    elif stage == 'deductive':
        n = int(sys.argv[2])
        todo = [d for d in ms if open(d + 'stage1.txt').read().strip() == 'tests-pass']
        random.Random(1).shuffle(todo)
        with ThreadPoolExecutor(max(1, workers // 4)) as ex:
            list(ex.map(deductive_only, todo[:n]))
    if stage in ('report', 'stage1', 'stage2', 'stage3', 'deductive'):
        c = {}
        surv = []
        for d in ms:
            if not os.path.exists(d + 'stage1.txt'):
                continue
            s1 = open(d + 'stage1.txt').read().strip()
            key = s1
            if s1 == 'tests-pass' and os.path.exists(d + 'stage2.json'):
                r = json.load(open(d + 'stage2.json'))
                r3 = json.load(open(d + 'ded.json')) if os.path.exists(d + 'ded.json') else None
                if r['killed_by']:
                    key = 'tests-pass, killed by ' + r['killed_by'].split(':')[0].split()[0]
                elif r3 and r3['killed_by']:
                    key = 'tests-pass, killed by a named obligation (no bounded stand-in reported it)'
                elif not r['props']:
                    key = 'tests-pass, file anchors no property'
                else:
                    key = 'tests-pass, SURVIVED'
                    surv.append(d)
            c[key] = c.get(key, 0) + 1
        for k in sorted(c):
            print(f'{c[k]:6d}  {k}')
        ded = [json.load(open(d + 'ded.json')) for d in ms if os.path.exists(d + 'ded.json')]
        if ded:
            k = sum(1 for r in ded if r['killed_by'])
            g = sum(1 for r in ded if not r['killed_by'] and r['degraded'])
            print(f'deductive part alone on a sample of {len(ded)} suite-passing mutants: {k} killed by a named obligation, {g} degraded only, {len(ded) - k - g} not reported')
        if stage == 'report':
            for d in surv:
                m = meta(d)
                print('SURVIVOR', m['id'], m['file'] + ':' + str(m['line']), m['func'], '|', m['op'], '|', repr(m['orig'][:60]), '->', repr(m['repl'][:60]))


main()
