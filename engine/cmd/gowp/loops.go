package main

// Loop cutting with invariants, havoc sets, range iteration.

import (
	"fmt"
	"go/types"
	"os"
	"strings"

	"golang.org/x/tools/go/ssa"
)

type havocSet struct {
	deletes map[string]bool // MapDom components from which the loop may delete keys
	locals map[*ssa.Alloc]bool
	comps  map[string]Sort
	all    bool
	allocs bool
}

func (run *FuncRun) loopSpec(fr *Frame, ord int) *LoopSpec {
	if fr.inlineTag != "" {
		// invariants for loops of inlined callees are given by the function under verification
		if run.contract != nil {
			if ls := run.contract.Loops[fmt.Sprintf("%s.%d", fr.inlineTag, ord)]; ls != nil {
				return ls
			}
		}
		// or by the nearest enclosing inlined function's own contract - unless that function
		// iterates a function parameter (Range-like): its own loop contract cannot know what the
		// caller's closure does, so a caller that gives no contract for the iteration gets no
		// obligations (DEGRADED: "has no invariant"), never a heap forgotten wholesale followed by
		// obligations that cannot be proved
		if c := run.eng.contractFor(fr.fn); c != nil {
			if ls := c.Loops[fmt.Sprint(ord)]; ls != nil {
				if run.contract != nil && os.Getenv("GOWP_INLINE_LOOP_FALLBACK") == "" && hasFuncParam(fr.fn) && run.contract.Key != c.Key {
					return nil
				}
				return ls
			}
		}
		return nil
	}
	if fr.parent == nil && run.contract != nil {
		return run.contract.Loops[fmt.Sprint(ord)]
	}
	if c := run.eng.contractFor(fr.fn); c != nil {
		return c.Loops[fmt.Sprint(ord)]
	}
	return nil
}

func (run *FuncRun) loopName(fr *Frame, ord int) string {
	if fr.inlineTag != "" {
		return fmt.Sprintf("%s.%d", fr.inlineTag, ord)
	}
	return fmt.Sprint(ord)
}

// enterLoopHeader returns false when the path ends here (back edge).
func (run *FuncRun) enterLoopHeader(st *State, b *ssa.BasicBlock, ord int) bool {
	fr := st.frame
	spec := run.loopSpec(fr, ord)
	lname := run.loopName(fr, ord)
	where := ""
	for _, in := range b.Instrs {
		if p := run.posOf(in); p != "" {
			where = p
			break
		}
	}
	if spec != nil && spec.Unroll {
		return true
	}
	if spec == nil {
		// A loop whose guard is decided on every path (constant trip count) can be unrolled.
		fail("%s: loop %s (%s) has no invariant", run.key, lname, where)
	}
	if fr.openLoops[b.Index] {
		// back edge: invariant preserved
		env := run.loopEnv(st, b, ord)
		for _, cl := range spec.Invariants {
			goals := env.proveGoals(cl.Expr)
			run.addGoals(st, "inv."+lname+".preserved", cl.Label, goals, cl.Src, cl.Where)
		}
		if spec.HasAssigns {
			if as := fr.loopAssign[b.Index]; as != nil {
				run.checkFrameAgainst(st, fr.loopEntry[b.Index], as, "loopframe."+lname, where)
			}
		}
		if spec.Decreases != nil {
			cur := env.eval(spec.Decreases.Expr).T
			prev := fr.decAt[b.Index]
			run.addObligation(st, "dec."+lname, "", And(Lt(cur, prev), Ge(prev, IntLit(0))), "loop measure decreases and is bounded below: "+spec.Decreases.Src, spec.Decreases.Where)
		}
		return false
	}
	// first arrival: invariant holds on entry
	fr.loopEntry[b.Index] = st.Snap()
	snapLocals := map[*ssa.Alloc]Val{}
	for f := fr; f != nil; f = f.parent {
		for a, v := range f.locals {
			snapLocals[a] = v
		}
	}
	fr.loopLocals[b.Index] = snapLocals
	env := run.loopEnv(st, b, ord)
	for _, cl := range spec.Invariants {
		goals := env.proveGoals(cl.Expr)
		run.addGoals(st, "inv."+lname+".entry", cl.Label, goals, cl.Src, cl.Where)
	}
	// havoc what the loop may modify
	hs := run.computeHavoc(st, fr, b)
	st.script.Comment(fmt.Sprintf("loop %s header (block %d): havoc", lname, b.Index))
	if hs.all && !spec.HasAssigns {
		// objects private to this path may be written by earlier iterations of
		// the body: their contents are not known at an arbitrary iteration either
		// (they stay out of reach of unknown code, so they remain private afterwards)
		savedPriv, savedCont := st.private, st.contains
		st.private, st.contains = map[string]bool{}, map[string][]string{}
		st.HavocAll("loop body calls unknown code")
		st.private, st.contains = savedPriv, savedCont
	} else if spec.HasAssigns {
		// loop assigns: pre-existing locations outside the clause keep their
		// loop-entry contents (checked again at every back edge)
		le := st.Snap()
		as := env.assignSetOfItems(spec.Assigns, where)
		for _, f := range env.takeFacts() {
			st.Assume(f)
		}
		fr.loopEntry[b.Index] = le
		fr.loopAssign[b.Index] = as
		if as.allBelow != nil {
			// the body calls a callback: its effect is absorbed first, and the
			// function's own frame is measured from there
			run.callbackEpoch(st, as)
			st.newEpoch(st.Snap(), withoutCallback(as))
		} else {
		// (the loop's assigns clause is what is assumed here; it is checked
		// against the callees' actual frames at every back edge)
		// components the loop body cannot touch (statically) keep their version
		st.newEpochKeeping(le, as, func(name string) bool {
			if _, ok := hs.comps[name]; ok {
				return false
			}
			if _, ok := as.comps[name]; ok {
				return false
			}
			return true
		})
		}
	} else {
		st.HavocAlloc()
		for _, name := range sortedKeys(hs.comps) {
			run.compSorts[name] = hs.comps[name]
			st.HavocComp(name)
		}
		for _, name := range sortedKeys(hs.comps) {
			if strings.HasPrefix(name, "MapCard:") {
				domName := "MapDom:" + strings.TrimPrefix(name, "MapCard:")
				if ds, ok := run.compSorts[domName]; ok {
					for _, f := range run.mapVersionFacts(name, st.heap[name], st.H(domName, ds)) {
						st.script.Add(f)
					}
				}
			}
		}
	}
	for a := range hs.locals {
		ofr := st.frameOfAlloc(a)
		if ofr == nil {
			continue // not yet allocated on this path: it is (re)initialised inside the loop
		}
		cur, ok := ofr.locals[a].(Term)
		if !ok {
			continue
		}
		nv := st.Fresh("l."+a.Comment, cur.Sort)
		ofr.locals[a] = nv
		st.assumeWellTyped(nv, a.Type().(*types.Pointer).Elem())
	}
	// map iterators of this loop: havoc visited/deleted
	for _, in := range b.Instrs {
		if nx, ok := in.(*ssa.Next); ok {
			if it, ok := run.val(st, nx.Iter).(*RangeIter); ok && it.IsMap {
				nit := *it
				kS := run.eng.reg.SortOf(it.KeyT)
				nit.Visited = st.Fresh("visited", ArrSort(kS, SBool))
				mc := run.mapComps(types.NewMap(it.KeyT, it.ElemT))
				if hs.deletes[mc.Dom] || hs.all {
					nit.Deleted = st.Fresh("deleted", ArrSort(kS, SBool))
				}
				fr.iters[b.Index] = &nit
				run.setIter(st, nx.Iter, &nit)
			}
		}
	}
	fr.openLoops[b.Index] = true
	env = run.loopEnv(st, b, ord)
	for _, cl := range spec.Invariants {
		st.script.Comment("invariant " + cl.Src)
		t := env.evalBool(cl.Expr)
		for _, f := range env.takeFacts() {
			st.Assume(f)
		}
		st.Assume(t)
	}
	if spec.Decreases != nil {
		fr.decAt[b.Index] = st.Name("dec", env.eval(spec.Decreases.Expr).T)
	}
	// vacuity: the invariant together with the path must be satisfiable
	run.addObligation(st, "cover", "inv."+lname, TFalse, "loop invariant satisfiable", where).ExpectSat = true
	return true
}

func (run *FuncRun) setIter(st *State, v ssa.Value, it *RangeIter) {
	for fr := st.frame; fr != nil; fr = fr.parent {
		if _, ok := fr.regs[v]; ok {
			fr.regs[v] = it
			return
		}
	}
}

// loopEnv builds the evaluation environment for a loop invariant.
func (run *FuncRun) loopEnv(st *State, b *ssa.BasicBlock, ord int) *CEnv {
	env := run.contractEnv(st, run.entry, st.frame)
	env.loopBlock = b
	// $idx: number of elements consumed by a slice range loop
	for _, in := range b.Instrs {
		if s, ok := in.(*ssa.Store); ok {
			if a, ok := s.Addr.(*ssa.Alloc); ok && a.Comment == "rangeindex" {
				if fr := st.frameOfAlloc(a); fr != nil {
					if cur, ok := fr.locals[a].(Term); ok {
						env.vars["$idx"] = CVal{T: Add(cur, IntLit(1)), Type: types.Typ[types.Int]}
					}
				}
			}
		}
		if nx, ok := in.(*ssa.Next); ok {
			if it, ok := run.val(st, nx.Iter).(*RangeIter); ok && it.IsMap {
				env.iter = it
			}
		}
	}
	return env
}

// computeHavoc determines what the natural loop with header b may modify.
func (run *FuncRun) computeHavoc(st *State, fr *Frame, b *ssa.BasicBlock) *havocSet {
	hs := &havocSet{locals: map[*ssa.Alloc]bool{}, comps: map[string]Sort{}, deletes: map[string]bool{}}
	li := run.loopsOf(fr.fn)
	body := li.body[b.Index]
	seen := map[*ssa.Function]bool{}
	for idx := range body {
		run.havocOfBlock(st, fr, fr.fn.Blocks[idx], hs, seen, 0)
	}
	return hs
}

func (run *FuncRun) rootOfAddr(v ssa.Value) (root ssa.Value) {
	for {
		switch x := v.(type) {
		case *ssa.FieldAddr:
			v = x.X
		case *ssa.IndexAddr:
			if _, isPtr := under(x.X.Type()).(*types.Pointer); isPtr {
				v = x.X
			} else {
				return x // slice element
			}
		default:
			return v
		}
	}
}

func (run *FuncRun) addCompForPointee(hs *havocSet, elem types.Type) {
	reg := run.eng.reg
	elem = types.Unalias(elem)
	so := reg.SortOf(elem)
	switch u := under(elem).(type) {
	case *types.Struct:
		hs.comps[compStruct(so)] = ArrSort(SInt, so)
	case *types.Array:
		es := reg.SortOf(u.Elem())
		hs.comps[compArr(es)] = ArrSort(SInt, ArrSort(SInt, es))
	default:
		hs.comps[compCell(so)] = ArrSort(SInt, so)
	}
}

func (run *FuncRun) addMapComps(hs *havocSet, mt *types.Map) {
	mc := run.mapComps(mt)
	hs.comps[mc.Dom] = mc.DomS
	hs.comps[mc.Val] = mc.ValS
	hs.comps[mc.Card] = mc.CardS
}

func (run *FuncRun) havocOfBlock(st *State, fr *Frame, blk *ssa.BasicBlock, hs *havocSet, seen map[*ssa.Function]bool, depth int) {
	reg := run.eng.reg
	for _, instr := range blk.Instrs {
		switch in := instr.(type) {
		case *ssa.Store:
			root := run.rootOfAddr(in.Addr)
			switch r := root.(type) {
			case *ssa.Alloc:
				if !r.Heap {
					hs.locals[r] = true
				} else {
					run.addCompForPointee(hs, r.Type().(*types.Pointer).Elem())
				}
			case *ssa.IndexAddr: // slice element
				es := reg.SortOf(under(r.X.Type()).(*types.Slice).Elem())
				hs.comps[compArr(es)] = ArrSort(SInt, ArrSort(SInt, es))
			case *ssa.Global:
				hs.comps[compGlobal(r)] = reg.SortOf(r.Type().(*types.Pointer).Elem())
			default:
				pt, ok := under(root.Type()).(*types.Pointer)
				if !ok {
					hs.all = true
					continue
				}
				run.addCompForPointee(hs, pt.Elem())
			}
		case *ssa.Alloc:
			if in.Heap {
				run.addCompForPointee(hs, in.Type().(*types.Pointer).Elem())
				hs.allocs = true
			} else {
				hs.locals[in] = true
			}
		case *ssa.MapUpdate:
			run.addMapComps(hs, under(in.Map.Type()).(*types.Map))
		case *ssa.MakeMap:
			run.addMapComps(hs, under(in.Type()).(*types.Map))
			hs.allocs = true
		case *ssa.MakeSlice:
			es := reg.SortOf(under(in.Type()).(*types.Slice).Elem())
			hs.comps[compArr(es)] = ArrSort(SInt, ArrSort(SInt, es))
			hs.allocs = true
		case *ssa.MakeClosure, *ssa.MakeInterface:
		case *ssa.Defer:
			run.havocOfCall(st, fr, &in.Call, hs, seen, depth)
		case *ssa.Call:
			run.havocOfCall(st, fr, &in.Call, hs, seen, depth)
		}
	}
}

func (run *FuncRun) havocOfCall(st *State, fr *Frame, c *ssa.CallCommon, hs *havocSet, seen map[*ssa.Function]bool, depth int) {
	reg := run.eng.reg
	if c.IsInvoke() {
		fc := run.eng.ifaceContract(c)
		if fc == nil {
			hs.all = true
			return
		}
		run.havocOfContract(st, fc, c, hs)
		return
	}
	if bi, ok := c.Value.(*ssa.Builtin); ok {
		switch bi.Name() {
		case "append":
			es := reg.SortOf(under(c.Args[0].Type()).(*types.Slice).Elem())
			hs.comps[compArr(es)] = ArrSort(SInt, ArrSort(SInt, es))
			hs.allocs = true
		case "delete", "clear":
			if mt, ok := under(c.Args[0].Type()).(*types.Map); ok {
				run.addMapComps(hs, mt)
				if hs.deletes != nil {
					hs.deletes[run.mapComps(mt).Dom] = true
				}
			}
		case "copy":
			es := reg.SortOf(under(c.Args[0].Type()).(*types.Slice).Elem())
			hs.comps[compArr(es)] = ArrSort(SInt, ArrSort(SInt, es))
		}
		return
	}
	fn := run.staticCallee(st, fr, c.Value)
	if fn == nil {
		hs.all = true
		return
	}
	mode, fc := run.eng.callMode(fn)
	switch mode {
	case "inline":
		if seen[fn] || depth > 6 {
			return
		}
		seen[fn] = true
		// the callee's own locals are fresh per call; only heap effects matter, but
		// closures passed as arguments may be called inside: resolve through a
		// pseudo-frame binding parameters to argument values when they are closures.
		sub := &Frame{fn: fn, regs: map[ssa.Value]Val{}, locals: map[*ssa.Alloc]Val{}, parent: fr}
		for i, p := range fn.Params {
			if i < len(c.Args) {
				if cl := run.closureOf(st, fr, c.Args[i]); cl != nil {
					sub.regs[p] = cl
				}
			}
		}
		tmp := &havocSet{locals: map[*ssa.Alloc]bool{}, comps: hs.comps, deletes: hs.deletes}
		for _, blk := range fn.Blocks {
			run.havocOfBlock(st, sub, blk, tmp, seen, depth+1)
		}
		hs.all = hs.all || tmp.all
		hs.allocs = hs.allocs || tmp.allocs
		// locals of enclosing frames written through closures are heap cells already
		for a := range tmp.locals {
			if a.Parent() != fn {
				hs.locals[a] = true
			}
		}
	case "contract", "external":
		run.havocOfContract(st, fc, c, hs)
	default:
		hs.all = true
	}
}

// closureOf resolves an SSA value to a statically known closure/function.
func (run *FuncRun) closureOf(st *State, fr *Frame, v ssa.Value) Val {
	switch x := v.(type) {
	case *ssa.Function:
		return &FuncVal{x}
	case *ssa.MakeClosure:
		return &Closure{Fn: x.Fn.(*ssa.Function)}
	case *ssa.UnOp:
		if a, ok := x.X.(*ssa.Alloc); ok {
			for f := fr; f != nil; f = f.parent {
				if cur, ok := f.locals[a]; ok {
					switch cur.(type) {
					case *Closure, *FuncVal:
						return cur
					}
				}
			}
			for f := st.frame; f != nil; f = f.parent {
				if cur, ok := f.locals[a]; ok {
					switch cur.(type) {
					case *Closure, *FuncVal:
						return cur
					}
				}
			}
		}
	case *ssa.Parameter:
		for f := fr; f != nil; f = f.parent {
			if cur, ok := f.regs[x]; ok {
				switch cur.(type) {
				case *Closure, *FuncVal:
					return cur
				}
			}
		}
	}
	for f := fr; f != nil; f = f.parent {
		if cur, ok := f.regs[v]; ok {
			switch cur.(type) {
			case *Closure, *FuncVal:
				return cur
			}
		}
	}
	return nil
}

func (run *FuncRun) staticCallee(st *State, fr *Frame, v ssa.Value) *ssa.Function {
	switch x := run.closureOf(st, fr, v).(type) {
	case *FuncVal:
		return x.Fn
	case *Closure:
		return x.Fn
	}
	return nil
}

// havocOfContract adds the heap components named by a contract's assigns clause.
func (run *FuncRun) havocOfContract(st *State, fc *FuncContract, c *ssa.CallCommon, hs *havocSet) {
	if fc == nil || !fc.HasAssigns {
		if fc != nil && fc.Pure {
			return
		}
		hs.all = true
		return
	}
	for _, it := range fc.Assigns {
		if it.Kind == "all" {
			hs.all = true
			return
		}
	}
	if len(fc.Assigns) == 0 {
		return
	}
	// Component names depend only on static types: evaluate the items with
	// parameters bound to dummy terms of the right type.
	env := run.dummyCallEnv(st, fc, c)
	if env == nil {
		hs.all = true
		return
	}
	comps, ok := env.assignComps(fc)
	if !ok {
		hs.all = true
		return
	}
	for name, so := range comps {
		hs.comps[name] = so
		if strings.HasPrefix(name, "MapDom:") && hs.deletes != nil {
			hs.deletes[name] = true // a callee that may write the map may also delete from it
		}
	}
	hs.allocs = true
}

// ---------- range / next ----------

func (run *FuncRun) execRange(st *State, in *ssa.Range) {
	switch xt := under(in.X.Type()).(type) {
	case *types.Map:
		m := run.term(st, in.X)
		kS := run.eng.reg.SortOf(xt.Key())
		it := &RangeIter{IsMap: true, MapRef: m, KeyT: xt.Key(), ElemT: xt.Elem(), ID: run.counter}
		it.Visited = ConstArray(ArrSort(kS, SBool), TFalse)
		it.Deleted = ConstArray(ArrSort(kS, SBool), TFalse)
		it.Dom0 = st.Name("dom0", mapDom(st, run.mapComps(xt), m))
		run.set(st, in, it)
	default:
		fail("%s: range over %s is outside the modelled subset", run.key, in.X.Type())
	}
}

// execNext models one step of a map iteration, nondeterministically in the
// key order: any present, not yet visited key may come next.
func (run *FuncRun) execNext(st *State, in *ssa.Next) bool {
	it, ok := run.val(st, in.Iter).(*RangeIter)
	if !ok || !it.IsMap {
		fail("%s: next on non-map iterator", run.key)
	}
	mt := types.NewMap(it.KeyT, it.ElemT)
	mc := run.mapComps(mt)
	dom := mapDom(st, mc, it.MapRef)
	val := mapVal(st, mc, it.MapRef)
	okc := st.Fresh("next.ok", SBool)
	k := st.Fresh("next.k", mc.K)
	// ok => k is present and unvisited
	st.Assume(Implies(okc, And(Select(dom, k), Not(Select(it.Visited, k)))))
	// !ok => every key present at range time, still present and never deleted
	// in between has been visited. Keys inserted during the loop may or may
	// not be produced (Go spec), so nothing is required of them.
	q := run.freshName("q")
	st.Assume(Implies(Not(okc), Term{fmt.Sprintf("(forall ((%s %s)) (! (=> (and (select %s %s) (select %s %s) (not (select %s %s))) (select %s %s)) :pattern ((select %s %s)) :pattern ((select %s %s))))",
		q, mc.K, it.Dom0.S, q, dom.S, q, it.Deleted.S, q, it.Visited.S, q, dom.S, q, it.Visited.S, q), SBool}))
	st.Assume(Implies(Eq(it.MapRef, IntLit(0)), Not(okc)))
	v := Select(val, k)
	nit := *it
	nit.Visited = st.Name("visited", Ite(okc, Store(it.Visited, k, TTrue), it.Visited))
	run.setIter(st, in.Iter, &nit)
	if hdr := in.Block(); hdr != nil {
		st.frame.iters[hdr.Index] = &nit
	}
	run.afterLoad(st, v, it.ElemT)
	run.set(st, in, Tuple{okc, k, v})
	return true
}

// noteMapMutation keeps active iterators consistent with writes to maps:
// a deleted key becomes unvisited (if re-inserted it may be produced again).
func (run *FuncRun) noteMapMutation(st *State, mc MapComps, m, k Term, isDelete bool) {
	if !isDelete {
		return
	}
	for fr := st.frame; fr != nil; fr = fr.parent {
		for v, x := range fr.regs {
			it, ok := x.(*RangeIter)
			if !ok || !it.IsMap {
				continue
			}
			if run.eng.reg.SortOf(it.KeyT) != mc.K || run.eng.reg.SortOf(it.ElemT) != mc.V {
				continue
			}
			nit := *it
			nit.Visited = st.Name("visited", Ite(Eq(m, it.MapRef), Store(it.Visited, k, TFalse), it.Visited))
			nit.Deleted = st.Name("deleted", Ite(Eq(m, it.MapRef), Store(it.Deleted, k, TTrue), it.Deleted))
			fr.regs[v] = &nit
		}
	}
}

func trimPkg(s string) string {
	if i := strings.LastIndex(s, "/"); i >= 0 {
		return s[i+1:]
	}
	return s
}

func hasFuncParam(fn *ssa.Function) bool {
	for _, p := range fn.Params {
		if _, ok := p.Type().Underlying().(*types.Signature); ok {
			return true
		}
	}
	return false
}
