package main

// Engine: package loading, SSA construction, function keys, contract registry.

import (
	"fmt"
	"go/ast"
	"go/token"
	"go/types"
	"os"
	"path/filepath"
	"sort"
	"strings"

	"golang.org/x/tools/go/packages"
	"golang.org/x/tools/go/ssa"
	"golang.org/x/tools/go/ssa/ssautil"
)

type Engine struct {
	fset      *token.FileSet
	pkgs      []*packages.Package
	prog      *ssa.Program
	spkgs     []*ssa.Package
	reg       *Registry
	funcs     map[string]*ssa.Function
	contracts map[string]*FuncContract
	externals map[string]*FuncContract
	ghosts    map[string]*GhostFunc // pkg.name
	macros    map[string]*Macro
	axioms    []*Axiom
	ginvs     []*Axiom
	byShort   map[string]*types.Package
	loopCache map[*ssa.Function]*LoopInfo
	constGlobals map[string]bool
	repoDir   string
	files     []string // contract files read
	allPkgs   map[string]*packages.Package
}

// loadMode: dependencies come from export data (fast, small) for the real
// tree; with an overlay (self-test mutants) everything is type-checked from
// source, which go/ssa needs when packages are rebuilt around overlaid files.
func loadMode(overlay map[string][]byte) packages.LoadMode {
	if len(overlay) > 0 {
		return packages.LoadAllSyntax
	}
	return packages.LoadSyntax
}

func LoadEngine(repoDir string, overlay map[string][]byte, extSpecs []string) (*Engine, error) {
	eng := &Engine{reg: NewRegistry(), funcs: map[string]*ssa.Function{}, contracts: map[string]*FuncContract{}, externals: map[string]*FuncContract{},
		ghosts: map[string]*GhostFunc{}, macros: map[string]*Macro{}, byShort: map[string]*types.Package{}, loopCache: map[*ssa.Function]*LoopInfo{},
		constGlobals: map[string]bool{}, repoDir: repoDir, allPkgs: map[string]*packages.Package{}}
	cfg := &packages.Config{
		Mode:       loadMode(overlay),
		Dir:        repoDir,
		BuildFlags: []string{"-tags=verif"},
		Overlay:    overlay,
		Env:        append(os.Environ(), "GOFLAGS=-mod=mod", "GOPROXY=off", "GOSUMDB=off", "GOTOOLCHAIN=local"),
	}
	pkgs, err := packages.Load(cfg, "./...")
	if err != nil {
		return nil, err
	}
	var errs []string
	packages.Visit(pkgs, nil, func(p *packages.Package) {
		eng.allPkgs[p.PkgPath] = p
		if strings.HasPrefix(p.PkgPath, modulePath) {
			for _, e := range p.Errors {
				errs = append(errs, e.Error())
			}
		}
	})
	if len(errs) > 0 {
		return nil, fmt.Errorf("package errors:\n%s", strings.Join(errs, "\n"))
	}
	eng.pkgs = pkgs
	if len(pkgs) > 0 {
		eng.fset = pkgs[0].Fset
	}
	prog, spkgs := ssautil.AllPackages(pkgs, ssa.NaiveForm|ssa.GlobalDebug|ssa.InstantiateGenerics)
	prog.Build()
	eng.prog = prog
	eng.spkgs = spkgs
	for _, p := range eng.allPkgs {
		if p.Types != nil {
			short := shortPkg(p.PkgPath, p.Name)
			if _, dup := eng.byShort[short]; !dup || strings.HasPrefix(p.PkgPath, modulePath) {
				eng.byShort[short] = p.Types
			}
		}
	}
	// index functions (including methods, closures and generic instances)
	for fn := range ssautil.AllFunctions(prog) {
		if fn.Pkg == nil && fn.Origin() == nil {
			continue
		}
		p := fn.Pkg
		if p == nil && fn.Origin() != nil {
			p = fn.Origin().Pkg
		}
		if p == nil || !strings.HasPrefix(p.Pkg.Path(), modulePath) {
			continue
		}
		if fn.Synthetic != "" && !strings.HasPrefix(fn.Synthetic, "instance of") && fn.Synthetic != "package initializer" {
			continue
		}
		eng.funcs[eng.funcKey(fn)] = fn
	}
	// methods of (possibly generic) named types and package-level generic
	// functions are not always reachable from AllFunctions: add them explicitly.
	var addFn func(fn *ssa.Function)
	addFn = func(fn *ssa.Function) {
		if fn == nil || len(fn.Blocks) == 0 {
			return
		}
		k := eng.funcKey(fn)
		if _, ok := eng.funcs[k]; !ok {
			eng.funcs[k] = fn
		}
		for _, a := range fn.AnonFuncs {
			addFn(a)
		}
	}
	for _, sp := range spkgs {
		if sp == nil || !strings.HasPrefix(sp.Pkg.Path(), modulePath) {
			continue
		}
		for _, m := range sp.Members {
			switch x := m.(type) {
			case *ssa.Function:
				addFn(x)
			case *ssa.Type:
				if n, ok := x.Type().(*types.Named); ok {
					for i := 0; i < n.NumMethods(); i++ {
						addFn(prog.FuncValue(n.Method(i)))
					}
				}
			}
		}
	}
	eng.scanConstGlobals()
	// contracts in the repository (guarded files)
	for _, p := range pkgs {
		if !strings.HasPrefix(p.PkgPath, modulePath) {
			continue
		}
		short := shortPkg(p.PkgPath, p.Name)
		for _, f := range p.GoFiles {
			if filepath.Base(f) != "contracts_verif.go" {
				continue
			}
			path := f
			var cf *ContractFile
			if data, ok := overlay[f]; ok {
				tmp, _ := os.CreateTemp("", "contract*.go")
				tmp.Write(data)
				tmp.Close()
				cf, err = ParseContractFile(tmp.Name(), short, false)
				os.Remove(tmp.Name())
			} else {
				cf, err = ParseContractFile(path, short, false)
			}
			if err != nil {
				return nil, err
			}
			eng.files = append(eng.files, path)
			eng.addContractFile(cf, false)
		}
	}
	for _, spec := range extSpecs {
		cf, err := ParseContractFile(spec, "", true)
		if err != nil {
			return nil, err
		}
		eng.files = append(eng.files, spec)
		eng.addContractFile(cf, true)
	}
	return eng, nil
}

func (eng *Engine) addContractFile(cf *ContractFile, external bool) {
	for _, fc := range cf.Funcs {
		if external || fc.Trusted {
			fc.Trusted = true
			eng.externals[fc.Key] = fc
		} else {
			eng.contracts[fc.Key] = fc
		}
	}
	for _, fc := range cf.Funcs {
		if fc.Like == "" {
			continue
		}
		src := eng.contracts[fc.Like]
		if src == nil {
			src = eng.externals[fc.Like]
		}
		if src == nil {
			continue
		}
		fc.Requires, fc.Ensures, fc.Assigns, fc.HasAssigns, fc.Loops, fc.Pure = src.Requires, src.Ensures, src.Assigns, src.HasAssigns, src.Loops, src.Pure
		fc.Iterates, fc.Callback, fc.Preserves = src.Iterates, src.Callback, src.Preserves
	}
	for _, g := range cf.Ghosts {
		eng.ghosts[g.Pkg+"."+g.Name] = g
	}
	for _, m := range cf.Macros {
		eng.macros[m.Pkg+"."+m.Name] = m
	}
	eng.axioms = append(eng.axioms, cf.Axioms...)
	eng.ginvs = append(eng.ginvs, cf.Ginvs...)
}

func (eng *Engine) typesPkg(short string) *types.Package { return eng.byShort[short] }

func (eng *Engine) macro(pkg, name string) *Macro {
	if i := strings.Index(name, "."); i > 0 {
		return eng.macros[name]
	}
	if m, ok := eng.macros[pkg+"."+name]; ok {
		return m
	}
	if m, ok := eng.macros["."+name]; ok {
		return m
	}
	// macros are visible across packages by bare name when unambiguous
	var found *Macro
	for k, m := range eng.macros {
		if strings.HasSuffix(k, "."+name) {
			if found != nil {
				return nil
			}
			found = m
		}
	}
	return found
}

func (eng *Engine) ghost(pkg, name string) *GhostFunc {
	if i := strings.Index(name, "."); i > 0 {
		return eng.ghosts[name]
	}
	if g, ok := eng.ghosts[pkg+"."+name]; ok {
		return g
	}
	if g, ok := eng.ghosts["."+name]; ok {
		return g
	}
	var found *GhostFunc
	for k, g := range eng.ghosts {
		if strings.HasSuffix(k, "."+name) {
			if found != nil {
				return nil
			}
			found = g
		}
	}
	return found
}

func (eng *Engine) pkgOfFunc(fn *ssa.Function) string {
	for f := fn; f != nil; f = f.Parent() {
		if f.Pkg != nil {
			return shortPkg(f.Pkg.Pkg.Path(), f.Pkg.Pkg.Name())
		}
		if o := f.Origin(); o != nil && o.Pkg != nil {
			return shortPkg(o.Pkg.Pkg.Path(), o.Pkg.Pkg.Name())
		}
	}
	return ""
}

// funcKey: ordered.Equal, (*ordered.Map).Replace, pipeline.interpolateAny[string],
// (*ordered.Map[string,any]).Set, ordered.(*Map).ToMap$1 for closures -> "(*ordered.Map).ToMap$1".
func (eng *Engine) funcKey(fn *ssa.Function) string {
	if p := fn.Parent(); p != nil {
		suffix := strings.TrimPrefix(fn.Name(), p.Name())
		return eng.funcKey(p) + suffix
	}
	pkg := eng.pkgOfFunc(fn)
	name := fn.Name()
	targs := ""
	if o := fn.Origin(); o != nil {
		name = o.Name()
		var ts []string
		for _, t := range fn.TypeArgs() {
			ts = append(ts, eng.reg.TypeKey(t))
		}
		targs = "[" + strings.Join(ts, ",") + "]"
	}
	if recv := fn.Signature.Recv(); recv != nil {
		rt := recv.Type()
		star := ""
		if p, ok := rt.(*types.Pointer); ok {
			star = "*"
			rt = p.Elem()
		}
		rn := ""
		if n, ok := types.Unalias(rt).(*types.Named); ok {
			rn = n.Obj().Name()
			if n.Obj().Pkg() != nil {
				pkg = shortPkg(n.Obj().Pkg().Path(), n.Obj().Pkg().Name())
			}
			if fn.Origin() != nil && n.TypeArgs().Len() > 0 {
				var ts []string
				for i := 0; i < n.TypeArgs().Len(); i++ {
					ts = append(ts, eng.reg.TypeKey(n.TypeArgs().At(i)))
				}
				rn += "[" + strings.Join(ts, ",") + "]"
			}
		} else {
			rn = eng.reg.TypeKey(rt)
		}
		return "(" + star + pkg + "." + rn + ")." + name
	}
	return pkg + "." + name + targs
}

// originKey strips type arguments: the key contracts are written against.
func (eng *Engine) originKey(fn *ssa.Function) string {
	if p := fn.Parent(); p != nil {
		suffix := strings.TrimPrefix(fn.Name(), p.Name())
		return eng.originKey(p) + suffix
	}
	if o := fn.Origin(); o != nil {
		return eng.funcKey(o)
	}
	return eng.funcKey(fn)
}

func (eng *Engine) contractFor(fn *ssa.Function) *FuncContract {
	if c, ok := eng.contracts[eng.funcKey(fn)]; ok {
		return c
	}
	if c, ok := eng.contracts[eng.originKey(fn)]; ok {
		return c
	}
	return nil
}

func (eng *Engine) externalFor(fn *ssa.Function) *FuncContract {
	for _, key := range []string{eng.funcKey(fn), eng.originKey(fn), eng.extKey(fn)} {
		if c, ok := eng.externals[key]; ok {
			return c
		}
	}
	return nil
}

// extKey names functions outside the module: strings.HasPrefix, (*bytes.Buffer).WriteRune.
func (eng *Engine) extKey(fn *ssa.Function) string {
	if o := fn.Origin(); o != nil {
		fn = o
	}
	pkg := ""
	if fn.Pkg != nil {
		pkg = shortPkg(fn.Pkg.Pkg.Path(), fn.Pkg.Pkg.Name())
	}
	if recv := fn.Signature.Recv(); recv != nil {
		rt := recv.Type()
		star := ""
		if p, ok := rt.(*types.Pointer); ok {
			star = "*"
			rt = p.Elem()
		}
		if n, ok := types.Unalias(rt).(*types.Named); ok {
			if n.Obj().Pkg() != nil {
				pkg = shortPkg(n.Obj().Pkg().Path(), n.Obj().Pkg().Name())
			}
			return "(" + star + pkg + "." + n.Obj().Name() + ")." + fn.Name()
		}
	}
	return pkg + "." + fn.Name()
}

// callMode decides how a call to fn is treated.
func (eng *Engine) callMode(fn *ssa.Function) (string, *FuncContract) {
	if c := eng.contractFor(fn); c != nil {
		if c.Inline {
			return "inline", c
		}
		return "contract", c
	}
	if c := eng.externalFor(fn); c != nil {
		return "external", c
	}
	if fn.Synthetic == "package initializer" {
		return "skip", nil // initialisation of other packages happens before any code under contract runs
	}
	// compiler-generated wrappers are transparent
	if fn.Synthetic != "" && len(fn.Blocks) > 0 && !strings.HasPrefix(fn.Synthetic, "instance of") {
		return "inline", nil
	}
	// function literals without a contract of their own are executed in place
	if fn.Parent() != nil && len(fn.Blocks) > 0 {
		return "inline", nil
	}
	// a simple helper of this module without a contract (for example one
	// extracted by a refactoring) is executed in place, rather than treated as
	// arbitrary code: loop-free, and calling only builtins, functions under
	// contract and other simple helpers
	if eng.simpleHelper(fn, 0) {
		return "inline", nil
	}
	return "unknown", nil
}

func (eng *Engine) simpleHelper(fn *ssa.Function, depth int) bool {
	if depth > 3 || len(fn.Blocks) == 0 || fn.Synthetic != "" && !strings.HasPrefix(fn.Synthetic, "instance of") {
		return false
	}
	p := fn.Pkg
	if p == nil && fn.Origin() != nil {
		p = fn.Origin().Pkg
	}
	if p == nil || !strings.HasPrefix(p.Pkg.Path(), modulePath) || len(eng.loopInfo(fn).headers) > 0 {
		return false
	}
	for _, b := range fn.Blocks {
		for _, in := range b.Instrs {
			var cc *ssa.CallCommon
			switch x := in.(type) {
			case *ssa.Call:
				cc = &x.Call
			case *ssa.Defer:
				return false
			case *ssa.Go:
				return false
			case *ssa.MakeClosure:
				return false
			}
			if cc == nil {
				continue
			}
			if cc.IsInvoke() {
				return false
			}
			if _, isB := cc.Value.(*ssa.Builtin); isB {
				continue
			}
			callee := cc.StaticCallee()
			if callee == nil || callee == fn {
				return false
			}
			if c := eng.contractFor(callee); c != nil {
				if c.Inline {
					return false
				}
				continue
			}
			if eng.externalFor(callee) != nil {
				continue
			}
			if !eng.simpleHelper(callee, depth+1) {
				return false
			}
		}
	}
	return true
}

// ifaceContract finds the contract declared for an interface method.
func (eng *Engine) ifaceContract(c *ssa.CallCommon) *FuncContract {
	t := types.Unalias(c.Value.Type())
	if n, ok := t.(*types.Named); ok {
		pkg := ""
		if n.Obj().Pkg() != nil {
			pkg = shortPkg(n.Obj().Pkg().Path(), n.Obj().Pkg().Name()) + "."
		}
		key := "(" + pkg + n.Obj().Name() + ")." + c.Method.Name()
		if fc, ok := eng.contracts[key]; ok {
			return fc
		}
		if fc, ok := eng.externals[key]; ok {
			return fc
		}
	}
	// embedded / anonymous interfaces: match by method's declaring interface
	if c.Method.Pkg() != nil {
		for _, m := range []map[string]*FuncContract{eng.contracts, eng.externals} {
			for k, fc := range m {
				if strings.HasSuffix(k, ")."+c.Method.Name()) && strings.HasPrefix(k, "(") && !strings.HasPrefix(k, "(*") {
					// check that the named interface declares this method
					inner := k[1:strings.Index(k, ")")]
					parts := strings.SplitN(inner, ".", 2)
					if len(parts) == 2 {
						if p := eng.byShort[parts[0]]; p != nil {
							if obj := p.Scope().Lookup(parts[1]); obj != nil {
								if it, ok := obj.Type().Underlying().(*types.Interface); ok {
									for i := 0; i < it.NumMethods(); i++ {
										if it.Method(i) == c.Method || (it.Method(i).Name() == c.Method.Name() && types.Identical(it.Method(i).Type(), c.Method.Type())) {
											if types.Implements(c.Value.Type(), it) || types.Identical(c.Value.Type().Underlying(), it) {
												return fc
											}
										}
									}
								}
							}
						}
					}
				}
			}
		}
	}
	return nil
}

func (eng *Engine) funcValueContract(run *FuncRun, v ssa.Value) *FuncContract {
	// contract for calling a function-typed parameter: "func <key>#<param>"
	if p, ok := v.(*ssa.UnOp); ok {
		if a, ok := p.X.(*ssa.Alloc); ok {
			key := eng.originKey(a.Parent()) + "#" + a.Comment
			if fc, ok := eng.contracts[key]; ok {
				return fc
			}
		}
	}
	if p, ok := v.(*ssa.Parameter); ok {
		key := eng.originKey(p.Parent()) + "#" + p.Name()
		if fc, ok := eng.contracts[key]; ok {
			return fc
		}
	}
	return nil
}

// resolveInvoke: dynamic dispatch when the receiver's dynamic type is known syntactically.
func (eng *Engine) resolveInvoke(run *FuncRun, st *State, recv Term, c *ssa.CallCommon) *ssa.Function {
	if !strings.HasPrefix(recv.S, "(") {
		return nil
	}
	for _, key := range eng.reg.anyOrder {
		con := eng.reg.anyCons[key]
		if strings.HasPrefix(recv.S, "("+con.Ctor+" ") {
			ms := eng.prog.MethodSets.MethodSet(con.Type)
			sel := ms.Lookup(c.Method.Pkg(), c.Method.Name())
			if sel == nil {
				return nil
			}
			return eng.prog.MethodValue(sel)
		}
	}
	return nil
}

// implementsTerm: the dynamic type of a (non-nil) interface value implements iface.
func (eng *Engine) implementsTerm(run *FuncRun, x Term, iface types.Type) Term {
	it, ok := iface.Underlying().(*types.Interface)
	if !ok {
		fail("implements: %s is not an interface", iface)
	}
	if it.NumMethods() == 0 {
		return Neq(x, NilAny)
	}
	// a literal boxing decides the test
	if strings.HasPrefix(x.S, "(") {
		if i := strings.IndexByte(x.S, ' '); i > 0 {
			head := x.S[1:i]
			for _, k := range eng.reg.anyOrder {
				con := eng.reg.anyCons[k]
				if con.Ctor == head {
					if _, isTP := con.Type.(*types.TypeParam); !isTP {
						return BoolLit(types.Implements(con.Type, it))
					}
				}
			}
		}
	}
	var alts []Term
	for _, key := range append([]string(nil), eng.reg.anyOrder...) {
		con := eng.reg.anyCons[key]
		if _, isTP := con.Type.(*types.TypeParam); isTP {
			continue
		}
		if types.Implements(con.Type, it) {
			alts = append(alts, eng.reg.IsBoxed(con.Type, x))
		}
	}
	pred := quote("impl:" + eng.reg.TypeKey(iface))
	run.declare(pred, "(declare-fun "+pred+" (Int) Bool)")
	alts = append(alts, And(Term{"((_ is box_other) " + x.S + ")", SBool}, app(SBool, pred, app(SInt, "other_tag", x))))
	// Note: constructors registered later for implementing types are covered
	// because implementsTerm is re-evaluated lazily only for types seen so far;
	// the run pre-registers all named types of the module (see preRegister).
	return Or(alts...)
}

// preRegister makes every named type of the module (and its pointer) known to
// the Any datatype so that interface satisfaction is decided over a closed set.
func (eng *Engine) preRegister() {
	var names []string
	objs := map[string]types.Object{}
	for _, p := range eng.pkgs {
		if !strings.HasPrefix(p.PkgPath, modulePath) {
			continue
		}
		for _, n := range p.Types.Scope().Names() {
			obj := p.Types.Scope().Lookup(n)
			if tn, ok := obj.(*types.TypeName); ok && !tn.IsAlias() {
				key := p.PkgPath + "." + n
				names = append(names, key)
				objs[key] = obj
			}
		}
	}
	sort.Strings(names)
	for _, k := range names {
		t := objs[k].Type()
		if nt, ok := t.(*types.Named); ok && nt.TypeParams().Len() > 0 {
			continue
		}
		if types.IsInterface(t) {
			continue
		}
		func() {
			defer func() { recover() }()
			eng.reg.AnyConFor(types.NewPointer(t))
			if _, isStruct := t.Underlying().(*types.Struct); !isStruct {
				eng.reg.AnyConFor(t)
			} else if hasValueMethods(t) {
				eng.reg.AnyConFor(t)
			}
		}()
	}
	for _, t := range []types.Type{types.Typ[types.String], types.Typ[types.Int], types.Typ[types.Bool], types.Typ[types.Float64]} {
		eng.reg.AnyConFor(t)
	}
}

func hasValueMethods(t types.Type) bool {
	n, ok := t.(*types.Named)
	if !ok {
		return false
	}
	for i := 0; i < n.NumMethods(); i++ {
		if _, isPtr := n.Method(i).Type().(*types.Signature).Recv().Type().(*types.Pointer); !isPtr {
			return true
		}
	}
	return false
}

func (eng *Engine) loopInfo(fn *ssa.Function) *LoopInfo {
	if li, ok := eng.loopCache[fn]; ok {
		return li
	}
	li := analyzeLoops(fn)
	eng.loopCache[fn] = li
	return li
}

func (eng *Engine) globalIsConst(comp string) bool { return eng.constGlobals[comp] }

// scanConstGlobals finds package-level variables of the module that are
// stored to only by package initialisers (checked again per function by the
// frame.G obligations): they keep their value across calls of unknown code.
func (eng *Engine) scanConstGlobals() {
	written := map[string]bool{}
	all := map[string]bool{}
	for _, sp := range eng.spkgs {
		if sp == nil || !strings.HasPrefix(sp.Pkg.Path(), modulePath) {
			continue
		}
		for _, m := range sp.Members {
			if g, ok := m.(*ssa.Global); ok {
				all[compGlobal(g)] = true
			}
		}
	}
	var visit func(fn *ssa.Function)
	seen := map[*ssa.Function]bool{}
	visit = func(fn *ssa.Function) {
		if fn == nil || seen[fn] {
			return
		}
		seen[fn] = true
		isInit := fn.Synthetic == "package initializer" || (fn.Parent() == nil && strings.HasPrefix(fn.Name(), "init#"))
		for _, b := range fn.Blocks {
			for _, in := range b.Instrs {
				if s, ok := in.(*ssa.Store); ok && !isInit {
					var root ssa.Value = s.Addr
					for {
						switch x := root.(type) {
						case *ssa.FieldAddr:
							root = x.X
							continue
						case *ssa.IndexAddr:
							root = x.X
							continue
						}
						break
					}
					if g, ok := root.(*ssa.Global); ok {
						written[compGlobal(g)] = true
					}
				}
			}
		}
		for _, a := range fn.AnonFuncs {
			visit(a)
		}
	}
	for _, fn := range eng.funcs {
		visit(fn)
	}
	for g := range all {
		if !written[g] {
			eng.constGlobals[g] = true
		}
	}
}

// typeSubstFor maps type parameter names of fn's origin to the instance's type arguments.
func (eng *Engine) typeSubstFor(fn *ssa.Function) map[string]types.Type {
	for fn.Parent() != nil {
		fn = fn.Parent()
	}
	o := fn.Origin()
	if o == nil {
		return nil
	}
	m := map[string]types.Type{}
	targs := fn.TypeArgs()
	sig := o.Signature
	var tps *types.TypeParamList
	if sig.RecvTypeParams() != nil && sig.RecvTypeParams().Len() > 0 {
		tps = sig.RecvTypeParams()
	} else {
		tps = sig.TypeParams()
	}
	if tps != nil {
		for i := 0; i < tps.Len() && i < len(targs); i++ {
			m[tps.At(i).Obj().Name()] = targs[i]
		}
	}
	return m
}

// paramNames returns the contract-level parameter names and types for a call.
func (eng *Engine) paramNames(fc *FuncContract, sig *types.Signature, recvIface types.Type, callee *ssa.Function) ([]string, []types.Type) {
	var names []string
	var tys []types.Type
	if callee != nil && len(callee.Params) == 0 && (sig.Params().Len() > 0 || sig.Recv() != nil) {
		// body-less function (dependency loaded from export data): use the signature
		if r := sig.Recv(); r != nil {
			names = append(names, "recv")
			tys = append(tys, r.Type())
		}
		ps := sig.Params()
		for i := 0; i < ps.Len(); i++ {
			n := ps.At(i).Name()
			if len(fc.Params) == ps.Len() {
				n = fc.Params[i]
			}
			if n == "" || n == "_" {
				n = fmt.Sprintf("arg%d", i)
			}
			names = append(names, n)
			tys = append(tys, ps.At(i).Type())
		}
		return names, tys
	}
	if callee != nil {
		for _, p := range callee.Params {
			names = append(names, p.Name())
			tys = append(tys, p.Type())
		}
		if sig.Recv() != nil && len(names) > 0 && (callee.Pkg == nil || !strings.HasPrefix(callee.Pkg.Pkg.Path(), modulePath)) && callee.Origin() == nil {
			// dependency method loaded with its body (overlay mode): same naming as from export data
			names[0] = "recv"
		}
		if len(fc.Params) == len(names) {
			copy(names, fc.Params)
		} else if len(fc.Params) > 0 && sig.Recv() != nil && len(fc.Params) == len(names)-1 {
			copy(names[1:], fc.Params)
		}
		for i, n := range names {
			if n == "" || n == "_" {
				names[i] = fmt.Sprintf("arg%d", i)
			}
		}
		return names, tys
	}
	if recvIface != nil {
		names = append(names, "recv")
		tys = append(tys, recvIface)
	}
	ps := sig.Params()
	for i := 0; i < ps.Len(); i++ {
		n := ps.At(i).Name()
		if len(fc.Params) == ps.Len() {
			n = fc.Params[i]
		}
		if n == "" || n == "_" {
			n = fmt.Sprintf("arg%d", i)
		}
		names = append(names, n)
		tys = append(tys, ps.At(i).Type())
	}
	return names, tys
}

// dummyCallEnv binds a contract's parameters to the actual argument terms
// when available, for static component computation.
func (run *FuncRun) dummyCallEnv(st *State, fc *FuncContract, c *ssa.CallCommon) (env *CEnv) {
	defer func() {
		if r := recover(); r != nil {
			if _, ok := r.(engineError); ok {
				env = nil
				return
			}
			panic(r)
		}
	}()
	eng := run.eng
	var callee *ssa.Function
	var recvT types.Type
	sig := c.Signature()
	var argVals []ssa.Value
	if c.IsInvoke() {
		recvT = c.Value.Type()
		argVals = append(argVals, c.Value)
		sig = c.Method.Type().(*types.Signature)
	} else {
		if f, ok := c.Value.(*ssa.Function); ok {
			callee = f
			sig = f.Signature
		} else if mc, ok := c.Value.(*ssa.MakeClosure); ok {
			callee = mc.Fn.(*ssa.Function)
			sig = callee.Signature
		}
	}
	argVals = append(argVals, c.Args...)
	names, tys := eng.paramNames(fc, sig, recvT, callee)
	env = &CEnv{run: run, st: st, cur: st, old: st.Snap(), vars: map[string]CVal{}, pkg: fc.Pkg}
	if callee != nil {
		env.tsubst = eng.typeSubstFor(callee)
	}
	for i, n := range names {
		if i >= len(tys) {
			break
		}
		so := eng.reg.SortOf(tys[i])
		env.vars[n] = CVal{T: Term{"dummy", so}, Type: tys[i]}
	}
	return env
}

// resolveShadowed picks, among same-named locals, the one in scope at the loop header.
func (eng *Engine) resolveShadowed(fn *ssa.Function, blk *ssa.BasicBlock, name string, cands []*ssa.Alloc) *ssa.Alloc {
	var pos token.Pos
	for _, in := range blk.Instrs {
		if in.Pos() != token.NoPos {
			pos = in.Pos()
			break
		}
	}
	if pos == token.NoPos {
		return nil
	}
	pkg := fn.Pkg
	for f := fn; pkg == nil && f != nil; f = f.Parent() {
		pkg = f.Pkg
	}
	if pkg == nil {
		return nil
	}
	scope := pkg.Pkg.Scope().Innermost(pos)
	if scope == nil {
		return nil
	}
	_, obj := scope.LookupParent(name, pos)
	if obj == nil {
		return nil
	}
	for _, a := range cands {
		if a.Pos() == obj.Pos() {
			return a
		}
	}
	return nil
}

// resolveType turns a parsed type expression into a go/types type.
func (eng *Engine) resolveType(te *TypeExpr, pkg string, tsubst map[string]types.Type) types.Type {
	switch te.Kind {
	case "ptr":
		return types.NewPointer(eng.resolveType(te.Args[0], pkg, tsubst))
	case "slice":
		return types.NewSlice(eng.resolveType(te.Args[0], pkg, tsubst))
	case "map":
		return types.NewMap(eng.resolveType(te.Args[0], pkg, tsubst), eng.resolveType(te.Args[1], pkg, tsubst))
	}
	if te.Pkg == "" {
		if t, ok := tsubst[te.Name]; ok {
			return t
		}
		switch te.Name {
		case "any":
			return types.Universe.Lookup("any").Type()
		case "error":
			return types.Universe.Lookup("error").Type()
		}
		if obj := types.Universe.Lookup(te.Name); obj != nil {
			if tn, ok := obj.(*types.TypeName); ok {
				return tn.Type()
			}
		}
	}
	p := pkg
	if te.Pkg != "" {
		p = te.Pkg
	}
	if tp := eng.byShort[p]; tp != nil {
		if obj := tp.Scope().Lookup(te.Name); obj != nil {
			if tn, ok := obj.(*types.TypeName); ok {
				t := tn.Type()
				if len(te.Args) > 0 {
					var targs []types.Type
					for _, a := range te.Args {
						targs = append(targs, eng.resolveType(a, pkg, tsubst))
					}
					inst, err := types.Instantiate(nil, t, targs, false)
					if err != nil {
						fail("cannot instantiate %s: %v", te, err)
					}
					return inst
				}
				return t
			}
		}
	}
	if te.Pkg == "" && isTypeParamName(te.Name) {
		return eng.ghostTypeParam(te.Name)
	}
	fail("cannot resolve type %s in package %s", te, pkg)
	return nil
}

var ghostTPs = map[string]*types.TypeParam{}

// ghostTypeParam returns a free-standing type parameter named n (sort tp.n).
func (eng *Engine) ghostTypeParam(n string) types.Type {
	if tp, ok := ghostTPs[n]; ok {
		return tp
	}
	cons := types.Universe.Lookup("comparable").Type()
	tp := types.NewTypeParam(types.NewTypeName(token.NoPos, nil, n, nil), cons)
	ghostTPs[n] = tp
	return tp
}

func (eng *Engine) findFuncs(pattern string) []*ssa.Function {
	var out []*ssa.Function
	if fn, ok := eng.funcs[pattern]; ok {
		return []*ssa.Function{fn}
	}
	var keys []string
	for k := range eng.funcs {
		keys = append(keys, k)
	}
	sort.Strings(keys)
	for _, k := range keys {
		if ok, _ := filepath.Match(pattern, k); ok {
			out = append(out, eng.funcs[k])
		}
	}
	return out
}

// instancesOf returns the instantiations of a generic function present in the program.
func (eng *Engine) instancesOf(originKey string) []*ssa.Function {
	var out []*ssa.Function
	var keys []string
	for k := range eng.funcs {
		keys = append(keys, k)
	}
	sort.Strings(keys)
	for _, k := range keys {
		fn := eng.funcs[k]
		if fn.Origin() != nil && eng.originKey(fn) == originKey && !hasTypeParamArgs(fn) {
			out = append(out, fn)
		}
	}
	return out
}

func hasTypeParamArgs(fn *ssa.Function) bool {
	for _, t := range fn.TypeArgs() {
		if hasTypeParam(t) {
			return true
		}
	}
	return false
}

var _ = ast.Inspect
