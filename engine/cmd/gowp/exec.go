package main

// Forward symbolic execution of go/ssa (NaiveForm) with loop cutting.

import (
	"fmt"
	"go/constant"
	"go/token"
	"go/types"
	"sort"
	"strings"

	"golang.org/x/tools/go/ssa"
)

type Obligation struct {
	Func     string
	Kind     string // post, pre, inv.entry, inv.preserved, dec, frame, nil, bounds, assert, panic, div, lemma, cover
	Label    string
	Path     int
	Lines    []string // path script
	Goal     string   // human readable
	Where    string
	ExpectSat bool    // cover obligations: sat/unknown expected
	Trail    []string
}

func (o *Obligation) Name() string {
	n := o.Func + "." + o.Kind
	if o.Label != "" {
		n += "." + o.Label
	}
	return n
}

type FuncRun struct {
	eng       *Engine
	fn        *ssa.Function
	key       string
	contract  *FuncContract
	obls      []*Obligation
	decls     map[string]string
	declOrder []string
	compSorts map[string]Sort
	counter   int
	epochs    int
	paths     int
	entry     *Snapshot
	entryVars map[string]CVal
	loops     *LoopInfo
	notes     []string
	checkSeen  map[string]int // internal (check) clauses: number of return paths on which they could be evaluated
	checkSkip  map[string]int
	pendingBindings []Val
	assumedFrames   map[string]bool
	pendingSrc      []ssa.Value
	epochInfo map[int]*epochInfo
	unknownCalls map[string]bool
	usedContracts map[string]bool
	usedExternals map[string]bool
	usedAxioms  map[string]bool
	maxPaths  int
	aborted   string
	tsubst    map[string]types.Type
	cone      map[string]bool // labels to prove (nil = all)
}

func (run *FuncRun) freshName(prefix string) string {
	run.counter++
	var b strings.Builder
	for _, r := range prefix {
		if r >= 'a' && r <= 'z' || r >= 'A' && r <= 'Z' || r >= '0' && r <= '9' || r == '_' || r == '.' || r == '$' {
			b.WriteRune(r)
		} else {
			b.WriteByte('_')
		}
	}
	return fmt.Sprintf("%s!%d", b.String(), run.counter)
}

func (run *FuncRun) nextEpoch() int { run.epochs++; return run.epochs }

func (run *FuncRun) declare(name, decl string) {
	if _, ok := run.decls[name]; ok {
		return
	}
	run.decls[name] = decl
	run.declOrder = append(run.declOrder, name)
}

func (run *FuncRun) note(format string, a ...any) {
	s := fmt.Sprintf(format, a...)
	for _, n := range run.notes {
		if n == s {
			return
		}
	}
	run.notes = append(run.notes, s)
}

type engineError struct{ msg string }

func fail(format string, a ...any) { panic(engineError{fmt.Sprintf(format, a...)}) }

// ---------- loops ----------

type LoopInfo struct {
	headers []int          // block indexes of loop headers in source order
	ordinal map[int]int    // header block index -> ordinal
	body    map[int]map[int]bool // header -> set of block indexes in the natural loop
}

func analyzeLoops(fn *ssa.Function) *LoopInfo {
	li := &LoopInfo{ordinal: map[int]int{}, body: map[int]map[int]bool{}}
	n := len(fn.Blocks)
	if n == 0 {
		return li
	}
	color := make([]int, n)
	type edge struct{ from, to int }
	var back []edge
	var dfs func(b *ssa.BasicBlock)
	dfs = func(b *ssa.BasicBlock) {
		color[b.Index] = 1
		for _, s := range b.Succs {
			switch color[s.Index] {
			case 0:
				dfs(s)
			case 1:
				back = append(back, edge{b.Index, s.Index})
			}
		}
		color[b.Index] = 2
	}
	dfs(fn.Blocks[0])
	for _, e := range back {
		if li.body[e.to] == nil {
			li.body[e.to] = map[int]bool{e.to: true}
			li.headers = append(li.headers, e.to)
		}
		// natural loop: nodes reaching e.from without passing e.to
		body := li.body[e.to]
		var stack []int
		if !body[e.from] {
			body[e.from] = true
			stack = append(stack, e.from)
		}
		for len(stack) > 0 {
			x := stack[len(stack)-1]
			stack = stack[:len(stack)-1]
			for _, p := range fn.Blocks[x].Preds {
				if !body[p.Index] {
					body[p.Index] = true
					stack = append(stack, p.Index)
				}
			}
		}
	}
	// order headers by source position of the block's first positioned instruction,
	// falling back to block index (which follows source order for structured code).
	sort.Ints(li.headers)
	for i, h := range li.headers {
		li.ordinal[h] = i
	}
	return li
}

// ---------- running a function ----------

func (eng *Engine) newRun(fn *ssa.Function) *FuncRun {
	run := &FuncRun{eng: eng, fn: fn, key: eng.funcKey(fn), decls: map[string]string{}, compSorts: map[string]Sort{},
		epochInfo: map[int]*epochInfo{}, checkSeen: map[string]int{}, checkSkip: map[string]int{},
		unknownCalls: map[string]bool{}, assumedFrames: map[string]bool{}, usedContracts: map[string]bool{}, usedExternals: map[string]bool{}, usedAxioms: map[string]bool{}, maxPaths: 4000}
	run.contract = eng.contractFor(fn)
	run.loops = analyzeLoops(fn)
	run.tsubst = eng.typeSubstFor(fn)
	return run
}

// VerifyFunction symbolically executes fn against its contract and returns
// the obligations.
func (eng *Engine) VerifyFunction(fn *ssa.Function, cone map[string]bool) (run *FuncRun) {
	run = eng.newRun(fn)
	run.cone = cone
	defer func() {
		if r := recover(); r != nil {
			if ee, ok := r.(engineError); ok {
				run.aborted = ee.msg
				return
			}
			panic(r)
		}
	}()
	if len(fn.Blocks) == 0 {
		fail("function %s has no body", run.key)
	}
	st := &State{run: run, script: &Script{}, heap: map[string]Term{}}
	st.alloc = Term{"alloc@0", SInt}
	run.declare("alloc@0", "(declare-const alloc@0 Int)")
	st.Assume(Ge(st.alloc, IntLit(1)))
	fr := &Frame{fn: fn, regs: map[ssa.Value]Val{}, locals: map[*ssa.Alloc]Val{}, openLoops: map[int]bool{}, iters: map[int]*RangeIter{}, loopEntry: map[int]*Snapshot{}, loopAssign: map[int]*assignSet{}, loopLocals: map[int]map[*ssa.Alloc]Val{}, decAt: map[int]Term{}}
	st.frame = fr
	// parameters
	run.entryVars = map[string]CVal{}
	for _, p := range fn.Params {
		so := eng.reg.SortOf(p.Type())
		c := Term{quote("p." + p.Name()), so}
		run.declare(c.S, "(declare-const "+c.S+" "+string(so)+")")
		fr.regs[p] = c
		run.entryVars[p.Name()] = CVal{T: c, Type: p.Type()}
		st.assumeWellTyped(c, p.Type())
	}
	for _, fv := range fn.FreeVars {
		so := SRef
		c := Term{quote("fv." + fv.Name()), so}
		run.declare(c.S, "(declare-const "+c.S+" Ref)")
		fr.regs[fv] = c
		st.Assume(Gt(c, IntLit(0)))
		st.Assume(Lt(c, st.alloc))
		run.entryVars["&"+fv.Name()] = CVal{T: c, Type: fv.Type()}
	}
	if fn.Synthetic == "package initializer" {
		// the initialiser body runs once: the guard is false on entry
		for _, m := range fn.Pkg.Members {
			if g, ok := m.(*ssa.Global); ok && g.Name() == "init$guard" {
				st.heap[compGlobal(g)] = TFalse
				run.compSorts[compGlobal(g)] = SBool
			}
		}
	}
	run.entry = st.Snap()
	// global invariants of the module's packages (established by init, kept by
	// the frame.G obligations of every function)
	if fn.Synthetic != "package initializer" {
		for _, gi := range eng.ginvs {
			genv := run.contractEnv(st, run.entry, nil)
			genv.pkg = gi.Pkg
			t := genv.evalBool(gi.Expr)
			for _, f := range genv.takeFacts() {
				st.Assume(f)
			}
			st.script.Comment("global invariant " + gi.Name)
			st.Assume(t)
		}
	}
	// preconditions
	if run.contract != nil {
		env := run.contractEnv(st, run.entry, nil)
		for _, cl := range run.contract.Requires {
			t := env.evalBool(cl.Expr)
			st.script.Comment("requires " + cl.Src)
			st.Assume(t)
		}
		// vacuity cover: the precondition must be satisfiable
		if len(run.contract.Requires) > 0 {
			run.addObligation(st, "cover", "requires", TFalse, "precondition satisfiable", run.contract.Where).ExpectSat = true
		}
	}
	run.execBlock(st, fn.Blocks[0], 0)
	return run
}

// assumeWellTyped adds the basic type invariants of symbolic inputs.
func (st *State) assumeWellTyped(t Term, ty types.Type) {
	switch u := under(ty).(type) {
	case *types.Pointer, *types.Map, *types.Chan:
		st.Assume(Ge(t, IntLit(0)))
		st.Assume(Lt(t, st.alloc))
	case *types.Slice:
		st.assumeSliceWF(t)
	case *types.Basic:
		if u.Info()&types.IsUnsigned != 0 {
			st.Assume(Ge(t, IntLit(0)))
		}
	case *types.Struct:
		si := st.run.eng.reg.Struct(t.Sort)
		if si != nil && len(si.Fields) <= 16 {
			for i, f := range si.Fields {
				switch under(f.Type).(type) {
				case *types.Pointer, *types.Map, *types.Slice:
					st.assumeWellTyped(st.run.eng.reg.FieldGet(t, i), f.Type)
				}
			}
		}
	case *types.TypeParam:
		if c := coreOf(u); c != nil {
			st.assumeWellTyped(t, c)
		}
	case *types.Interface:
		// references boxed in an interface value denote allocated objects
		if isAnySort(t.Sort) {
			reg := st.run.eng.reg
			if u.NumMethods() > 0 {
				// the dynamic type of a non-nil interface value implements the interface
				st.Assume(Or(Eq(t, NilAny), st.run.eng.implementsTerm(st.run, t, ty)))
			}
			var fs []Term
			for _, key := range reg.anyOrder {
				con := reg.anyCons[key]
				if con.Opaque {
					continue
				}
				switch con.Payload {
				case SRef:
					u := app(SRef, con.Accessor, t)
					fs = append(fs, Implies(Term{"((_ is " + con.Ctor + ") " + t.S + ")", SBool}, And(Ge(u, IntLit(0)), Lt(u, st.alloc))))
				case SSlice:
					u := app(SSlice, con.Accessor, t)
					fs = append(fs, Implies(Term{"((_ is " + con.Ctor + ") " + t.S + ")", SBool}, And(Ge(SliceArr(u), IntLit(0)), Lt(SliceArr(u), st.alloc), Ge(SliceLen(u), IntLit(0)), Le(SliceLen(u), SliceCap(u)))))
				}
			}
			st.Assume(And(fs...))
		}
	}
	if tp, ok := ty.(*types.TypeParam); ok {
		if c := coreOf(tp); c != nil {
			st.assumeWellTyped(t, c)
		}
	}
}

func (st *State) assumeSliceWF(s Term) {
	st.Assume(And(Ge(SliceArr(s), IntLit(0)), Lt(SliceArr(s), st.alloc),
		Ge(SliceLen(s), IntLit(0)), Le(SliceLen(s), SliceCap(s)),
		Implies(Eq(SliceArr(s), IntLit(0)), Eq(SliceCap(s), IntLit(0)))))
}

func (run *FuncRun) addObligation(st *State, kind, label string, goal Term, descr, where string) *Obligation {
	lines := append([]string(nil), st.script.lines...)
	lines = append(lines, "(assert (not "+goal.S+"))")
	o := &Obligation{Func: run.key, Kind: kind, Label: label, Path: st.pathID, Lines: lines, Goal: descr, Where: where, Trail: append([]string(nil), st.trail...)}
	run.obls = append(run.obls, o)
	return o
}

// addGoals records pre-split goals (each with its own hypotheses/skolems).
func (run *FuncRun) addGoals(st *State, kind, label string, goals []Goal, descr, where string) {
	for i, g := range goals {
		lines := append([]string(nil), st.script.lines...)
		lines = append(lines, g.Decls...)
		for _, h := range g.Hyps {
			if h.S != "true" {
				lines = append(lines, "(assert "+h.S+")")
			}
		}
		lines = append(lines, "(assert (not "+g.Goal.S+"))")
		lab := label
		if len(goals) > 1 {
			lab = fmt.Sprintf("%s/%d", label, i)
		}
		o := &Obligation{Func: run.key, Kind: kind, Label: lab, Path: st.pathID, Lines: lines, Goal: descr, Where: where, Trail: append([]string(nil), st.trail...)}
		run.obls = append(run.obls, o)
	}
}

func (run *FuncRun) posOf(instr ssa.Instruction) string {
	p := instr.Pos()
	if p == token.NoPos {
		return ""
	}
	pos := run.eng.fset.Position(p)
	return fmt.Sprintf("%s:%d", strings.TrimPrefix(pos.Filename, "/repo/"), pos.Line)
}

// ---------- block execution ----------

func (run *FuncRun) execBlock(st *State, b *ssa.BasicBlock, from int) {
	fr := st.frame
	if from == 0 {
		// loop header handling
		if ord, isHeader := run.loopsOf(fr.fn).ordinal[b.Index]; isHeader {
			if !run.enterLoopHeader(st, b, ord) {
				return
			}
		}
	}
	for i := from; i < len(b.Instrs); i++ {
		st.steps++
		if st.steps > 20000 {
			fail("path too long in %s", run.key)
		}
		instr := b.Instrs[i]
		switch in := instr.(type) {
		case *ssa.If:
			c := run.term(st, in.Cond)
			run.branch(st, b, c, fmt.Sprintf("b%d", b.Index))
			return
		case *ssa.Jump:
			fr.prev = b
			run.execBlock(st, b.Succs[0], 0)
			return
		case *ssa.Return:
			run.doReturn(st, in)
			return
		case *ssa.Panic:
			run.addObligation(st, "panic", "", TFalse, "explicit panic unreachable", run.posOf(in))
			return
		case *ssa.Call:
			cont := run.execCall(st, in, b, i)
			if !cont {
				return // inlined: continuation resumes the rest of the block
			}
			for _, pc := range st.pendingCopies {
				run.store(st, pc.lv, run.load(st, run.derefPtr(st, pc.cell, pc.lv.Type)))
			}
			st.pendingCopies = nil
		default:
			if !run.execInstr(st, instr) {
				return
			}
		}
	}
}

func (run *FuncRun) loopsOf(fn *ssa.Function) *LoopInfo {
	if fn == run.fn {
		return run.loops
	}
	return run.eng.loopInfo(fn)
}

func (run *FuncRun) branch(st *State, b *ssa.BasicBlock, c Term, tag string) {
	if c.S == "true" {
		st.frame.prev = b
		run.execBlock(st, b.Succs[0], 0)
		return
	}
	if c.S == "false" {
		st.frame.prev = b
		run.execBlock(st, b.Succs[1], 0)
		return
	}
	run.paths++
	if run.paths > run.maxPaths {
		fail("too many paths in %s (> %d)", run.key, run.maxPaths)
	}
	t := st.Fork()
	t.Assume(c)
	t.trail = append(t.trail, tag+"T")
	t.frame.prev = b
	run.execBlock(t, b.Succs[0], 0)
	st.Assume(Not(c))
	st.trail = append(st.trail, tag+"F")
	st.pathID = run.paths
	st.frame.prev = b
	run.execBlock(st, b.Succs[1], 0)
}

// term evaluates an SSA value to a Term.
func (run *FuncRun) term(st *State, v ssa.Value) Term {
	x := run.val(st, v)
	switch t := x.(type) {
	case Term:
		return t
	case *LVal:
		return run.materialize(st, t)
	case *FuncVal, *Closure:
		return run.funcTerm(st, x)
	}
	fail("%s: value %s (%T) is not a term", run.key, v.Name(), x)
	return Term{}
}

func (run *FuncRun) funcTerm(st *State, x Val) Term {
	switch f := x.(type) {
	case *FuncVal:
		name := quote("fn:" + run.eng.funcKey(f.Fn))
		run.declare(name, "(declare-const "+name+" Func)")
		return Term{name, SFunc}
	case *Closure:
		// a closure used as a first-class value may be called by anyone
		for _, b := range f.Bindings {
			if t, ok := b.(Term); ok {
				st.escape(t.S)
			}
		}
		return st.Fresh("closure", SFunc)
	}
	return Term{"func_nil", SFunc}
}

func (run *FuncRun) val(st *State, v ssa.Value) Val {
	switch x := v.(type) {
	case *ssa.Const:
		return run.constTerm(x)
	case *ssa.Function:
		return &FuncVal{x}
	case *ssa.Global:
		return &LVal{Root: rGlobal, Global: x, Sort: run.eng.reg.SortOf(x.Type().(*types.Pointer).Elem()), Type: x.Type().(*types.Pointer).Elem()}
	case *ssa.Builtin:
		fail("builtin %s used as value", x.Name())
	}
	for fr := st.frame; fr != nil; fr = fr.parent {
		if r, ok := fr.regs[v]; ok {
			return r
		}
		if fr.fn == v.Parent() {
			break
		}
	}
	fail("%s: no value for %s (%T) in %s", run.key, v.Name(), v, v.Parent())
	return nil
}

func (run *FuncRun) constTerm(c *ssa.Const) Term {
	so := run.eng.reg.SortOf(c.Type())
	if c.Value == nil {
		return run.eng.reg.Zero(so)
	}
	switch so {
	case SBool:
		return BoolLit(constant.BoolVal(c.Value))
	case SInt:
		if i, ok := constant.Int64Val(constant.ToInt(c.Value)); ok {
			return IntLit(i)
		}
		if u, ok := constant.Uint64Val(constant.ToInt(c.Value)); ok {
			return Term{fmt.Sprint(u), SInt}
		}
		fail("integer constant out of range: %s", c.Value)
	case SString:
		return StrLit(constant.StringVal(c.Value))
	case SFloat:
		name := quote("float:" + c.Value.ExactString())
		run.declare(name, "(declare-const "+name+" Float)")
		return Term{name, SFloat}
	}
	fail("unsupported constant %s of sort %s", c, so)
	return Term{}
}

func (run *FuncRun) set(st *State, v ssa.Value, x Val) { st.frame.regs[v] = x }

// frameOfAlloc finds the frame owning a local.
func (st *State) frameOfAlloc(a *ssa.Alloc) *Frame {
	for fr := st.frame; fr != nil; fr = fr.parent {
		if fr.fn == a.Parent() {
			if _, ok := fr.locals[a]; ok {
				return fr
			}
		}
	}
	return nil
}

// ---------- loads and stores ----------

func (run *FuncRun) derefPtr(st *State, p Term, elem types.Type) *LVal {
	elem = types.Unalias(elem)
	if tp, ok := elem.(*types.TypeParam); ok {
		if c := coreOf(tp); c != nil {
			_ = c
		}
	}
	so := run.eng.reg.SortOf(elem)
	if _, ok := under(elem).(*types.Struct); ok {
		return &LVal{Root: rObj, Sort: so, Ref: p, Type: elem}
	}
	return &LVal{Root: rCell, Sort: so, Ref: p, Type: elem}
}

func (run *FuncRun) readRoot(st *State, l *LVal) Val {
	switch l.Root {
	case rLocal:
		fr := st.frameOfAlloc(l.Alloc)
		if fr == nil {
			fail("%s: local %s not found", run.key, l.Alloc.Comment)
		}
		return fr.locals[l.Alloc]
	case rObj:
		return Select(st.H(compStruct(l.Sort), ArrSort(SInt, l.Sort)), l.Ref)
	case rCell:
		return Select(st.H(compCell(l.Sort), ArrSort(SInt, l.Sort)), l.Ref)
	case rElem:
		return Select(Select(st.H(compArr(l.Sort), ArrSort(SInt, ArrSort(SInt, l.Sort))), l.Ref), l.Idx)
	case rGlobal:
		return st.H(compGlobal(l.Global), l.Sort)
	}
	panic("bad lval root")
}

func (run *FuncRun) writeRoot(st *State, l *LVal, v Val) {
	switch l.Root {
	case rLocal:
		fr := st.frameOfAlloc(l.Alloc)
		if fr == nil {
			fail("%s: local %s not found", run.key, l.Alloc.Comment)
		}
		fr.locals[l.Alloc] = v
		return
	}
	t, ok := v.(Term)
	if !ok {
		t = run.valToTerm(st, v)
	}
	switch l.Root {
	case rObj:
		name := compStruct(l.Sort)
		st.storedInto(l.Ref.S, t.S)
		st.SetH(name, Store(st.H(name, ArrSort(SInt, l.Sort)), l.Ref, t))
	case rCell:
		name := compCell(l.Sort)
		st.storedInto(l.Ref.S, t.S)
		st.SetH(name, Store(st.H(name, ArrSort(SInt, l.Sort)), l.Ref, t))
	case rElem:
		name := compArr(l.Sort)
		st.storedInto(l.Ref.S, t.S)
		h := st.H(name, ArrSort(SInt, ArrSort(SInt, l.Sort)))
		st.SetH(name, Store(h, l.Ref, Store(Select(h, l.Ref), l.Idx, t)))
	case rGlobal:
		st.escape(t.S)
		st.heap[compGlobal(l.Global)] = t
		st.run.compSorts[compGlobal(l.Global)] = t.Sort
	}
}

func (run *FuncRun) valToTerm(st *State, v Val) Term {
	switch x := v.(type) {
	case Term:
		return x
	case *LVal:
		return run.materialize(st, x)
	case *FuncVal, *Closure:
		return run.funcTerm(st, x)
	}
	fail("%s: cannot turn %T into a term", run.key, v)
	return Term{}
}

func (run *FuncRun) load(st *State, l *LVal) Val {
	root := run.readRoot(st, l)
	if len(l.Path) == 0 {
		return root
	}
	t, ok := root.(Term)
	if !ok {
		fail("%s: path into non-term local", run.key)
	}
	for _, pe := range l.Path {
		if pe.Idx != nil {
			t = Select(t, *pe.Idx)
		} else {
			t = run.eng.reg.FieldGet(t, pe.Field)
		}
	}
	return t
}

func (run *FuncRun) store(st *State, l *LVal, v Val) {
	if len(l.Path) == 0 {
		run.writeRoot(st, l, v)
		return
	}
	root, ok := run.readRoot(st, l).(Term)
	if !ok {
		fail("%s: path store into non-term local", run.key)
	}
	t := run.valToTerm(st, v)
	var upd func(cur Term, path []PathElem) Term
	upd = func(cur Term, path []PathElem) Term {
		if len(path) == 0 {
			return t
		}
		pe := path[0]
		if pe.Idx != nil {
			return Store(cur, *pe.Idx, upd(Select(cur, *pe.Idx), path[1:]))
		}
		return run.eng.reg.FieldSet(cur, pe.Field, upd(run.eng.reg.FieldGet(cur, pe.Field), path[1:]))
	}
	run.writeRoot(st, l, upd(root, l.Path))
}

// materialize turns an address into a first-class pointer term. Heap objects
// and cells are references already; interior pointers are modelled
// copy-in/copy-out through a fresh cell (recorded as an assumption).
func (run *FuncRun) materialize(st *State, l *LVal) Term {
	if len(l.Path) == 0 {
		switch l.Root {
		case rObj, rCell:
			return l.Ref
		}
	}
	if l.Root == rGlobal {
		fail("%s: interior pointer (%s) escapes; outside the modelled subset", run.key, l.Type)
	}
	// interior pointer used as a first-class value (boxed into an interface,
	// stored, compared): modelled as a fresh cell holding a copy, written back
	// after the next call (assumes the pointer is used by that call only)
	cur := run.valToTerm(st, run.load(st, l))
	cell := st.NewRef()
	run.store(st, run.derefPtr(st, cell, l.Type), cur)
	st.pendingCopies = append(st.pendingCopies, pendingCopy{lv: l, cell: cell})
	run.note("interior pointer (%s) used as a value: modelled copy-in/copy-out around the next call", l.Type)
	return cell
}

// ---------- instructions ----------

func (run *FuncRun) execInstr(st *State, instr ssa.Instruction) bool {
	reg := run.eng.reg
	switch in := instr.(type) {
	case *ssa.DebugRef:
		return true
	case *ssa.Alloc:
		elem := in.Type().(*types.Pointer).Elem()
		so := reg.SortOf(elem)
		if !in.Heap {
			st.frame.locals[in] = reg.Zero(so)
			run.set(st, in, &LVal{Root: rLocal, Alloc: in, Sort: so, Type: elem})
			return true
		}
		ref := st.NewRef()
		switch under(elem).(type) {
		case *types.Struct:
			name := compStruct(so)
			st.SetH(name, Store(st.H(name, ArrSort(SInt, so)), ref, reg.Zero(so)))
		case *types.Array:
			es := reg.SortOf(under(elem).(*types.Array).Elem())
			name := compArr(es)
			st.SetH(name, Store(st.H(name, ArrSort(SInt, ArrSort(SInt, es))), ref, ConstArray(ArrSort(SInt, es), reg.Zero(es))))
		default:
			name := compCell(so)
			st.SetH(name, Store(st.H(name, ArrSort(SInt, so)), ref, reg.Zero(so)))
		}
		run.set(st, in, ref)
	case *ssa.Store:
		addr := run.val(st, in.Addr)
		v := run.val(st, in.Val)
		switch a := addr.(type) {
		case *LVal:
			run.store(st, a, v)
		case Term:
			run.nilCheck(st, a, in)
			run.store(st, run.derefPtr(st, a, under(in.Addr.Type()).(*types.Pointer).Elem()), v)
		default:
			fail("%s: store to %T", run.key, addr)
		}
	case *ssa.UnOp:
		run.execUnOp(st, in)
	case *ssa.BinOp:
		run.set(st, in, run.binop(st, in))
	case *ssa.FieldAddr:
		base := run.val(st, in.X)
		pt := under(in.X.Type()).(*types.Pointer).Elem()
		stt := under(pt).(*types.Struct)
		ft := stt.Field(in.Field).Type()
		switch b := base.(type) {
		case *LVal:
			run.set(st, in, b.extend(PathElem{Field: in.Field}, ft))
		case Term:
			run.nilCheck(st, b, in)
			l := &LVal{Root: rObj, Sort: reg.SortOf(pt), Ref: b, Type: pt}
			run.set(st, in, l.extend(PathElem{Field: in.Field}, ft))
		default:
			fail("%s: fieldaddr on %T", run.key, base)
		}
	case *ssa.Field:
		x := run.term(st, in.X)
		run.set(st, in, reg.FieldGet(x, in.Field))
	case *ssa.IndexAddr:
		run.execIndexAddr(st, in)
	case *ssa.Index:
		x := run.term(st, in.X)
		idx := run.term(st, in.Index)
		switch under(in.X.Type()).(type) {
		case *types.Array:
			run.set(st, in, Select(x, idx))
		default:
			// string index: byte value abstracted
			run.addObligation(st, "bounds", "", And(Ge(idx, IntLit(0)), Lt(idx, app(SInt, "str.len", x))), "string index in range", run.posOf(in))
			run.set(st, in, st.Fresh("byte", SInt))
		}
	case *ssa.Lookup:
		run.execLookup(st, in)
	case *ssa.MapUpdate:
		m := run.term(st, in.Map)
		k := run.term(st, in.Key)
		v := run.term(st, in.Value)
		mt := under(in.Map.Type()).(*types.Map)
		run.addObligation(st, "nil", "mapwrite", Neq(m, IntLit(0)), "assignment to entry in nil map", run.posOf(in))
		st.Assume(Neq(m, IntLit(0)))
		st.storedInto(m.S, v.S)
		st.storedInto(m.S, k.S)
		run.mapStore(st, mt, m, k, v)
	case *ssa.MakeMap:
		mt := under(in.Type()).(*types.Map)
		mc := run.mapComps(mt)
		ref := st.NewRef()
		st.SetH(mc.Dom, Store(st.H(mc.Dom, mc.DomS), ref, ConstArray(ArrSort(mc.K, SBool), TFalse)))
		st.SetH(mc.Val, Store(st.H(mc.Val, mc.ValS), ref, ConstArray(ArrSort(mc.K, mc.V), reg.Zero(mc.V))))
		st.SetH(mc.Card, Store(st.H(mc.Card, mc.CardS), ref, IntLit(0)))
		run.set(st, in, ref)
	case *ssa.MakeSlice:
		es := reg.SortOf(under(in.Type()).(*types.Slice).Elem())
		ln := run.term(st, in.Len)
		cp := run.term(st, in.Cap)
		run.addObligation(st, "bounds", "makeslice", And(Ge(ln, IntLit(0)), Le(ln, cp)), "make: len/cap in range", run.posOf(in))
		st.Assume(And(Ge(ln, IntLit(0)), Le(ln, cp)))
		ref := st.NewRef()
		name := compArr(es)
		st.SetH(name, Store(st.H(name, ArrSort(SInt, ArrSort(SInt, es))), ref, ConstArray(ArrSort(SInt, es), reg.Zero(es))))
		run.set(st, in, MkSlice(ref, ln, cp))
	case *ssa.Slice:
		run.execSlice(st, in)
	case *ssa.MakeInterface:
		x := run.val(st, in.X)
		t := run.valToTerm(st, x)
		run.set(st, in, reg.Box(in.X.Type(), t))
	case *ssa.ChangeInterface:
		run.set(st, in, run.term(st, in.X))
	case *ssa.ChangeType:
		x := run.val(st, in.X)
		if isIface(in.Type()) && !isIface(in.X.Type()) {
			// conversion of a type-parameter value to an interface: boxing
			run.set(st, in, reg.Box(in.X.Type(), run.valToTerm(st, x)))
			return true
		}
		if t, ok := x.(Term); ok {
			so := reg.SortOf(in.Type())
			if t.Sort != so {
				run.set(st, in, run.convertSort(st, t, in.X.Type(), in.Type()))
				return true
			}
		}
		run.set(st, in, x)
	case *ssa.Convert:
		x := run.term(st, in.X)
		run.set(st, in, run.convertSort(st, x, in.X.Type(), in.Type()))
	case *ssa.MultiConvert:
		x := run.term(st, in.X)
		run.set(st, in, run.convertSort(st, x, in.X.Type(), in.Type()))
	case *ssa.TypeAssert:
		run.execTypeAssert(st, in)
	case *ssa.Extract:
		tv := run.val(st, in.Tuple)
		tup, ok := tv.(Tuple)
		if !ok {
			fail("%s: extract from %T", run.key, tv)
		}
		run.set(st, in, tup[in.Index])
	case *ssa.Phi:
		for i, p := range in.Block().Preds {
			if p == st.frame.prev {
				run.set(st, in, run.val(st, in.Edges[i]))
				return true
			}
		}
		fail("%s: phi without matching predecessor", run.key)
	case *ssa.MakeClosure:
		c := &Closure{Fn: in.Fn.(*ssa.Function)}
		for _, b := range in.Bindings {
			c.Bindings = append(c.Bindings, run.val(st, b))
			c.Src = append(c.Src, b)
		}
		run.set(st, in, c)
	case *ssa.Range:
		run.execRange(st, in)
	case *ssa.Next:
		return run.execNext(st, in)
	case *ssa.Defer:
		d := deferred{call: &in.Call, pos: in}
		for _, a := range in.Call.Args {
			d.args = append(d.args, run.val(st, a))
		}
		if !in.Call.IsInvoke() {
			if _, isB := in.Call.Value.(*ssa.Builtin); !isB {
				d.fnv = run.val(st, in.Call.Value)
			}
		}
		st.frame.defers = append(st.frame.defers, d)
	case *ssa.RunDefers:
		for i := len(st.frame.defers) - 1; i >= 0; i-- {
			d := st.frame.defers[i]
			run.execDeferred(st, d)
		}
		st.frame.defers = nil
	case *ssa.Go, *ssa.Select, *ssa.Send, *ssa.MakeChan:
		fail("%s: %T is outside the modelled subset (no goroutines/channels)", run.key, instr)
	default:
		fail("%s: unsupported instruction %T (%s)", run.key, instr, instr)
	}
	return true
}

func (run *FuncRun) nilCheck(st *State, p Term, instr ssa.Instruction) {
	if p.S == "0" {
		run.addObligation(st, "nil", "", TFalse, "nil dereference", run.posOf(instr))
		return
	}
	// cheap syntactic filter: fresh refs r!N are never nil
	if strings.HasPrefix(p.S, "r!") {
		return
	}
	run.addObligation(st, "nil", "", Neq(p, IntLit(0)), "nil dereference of "+p.S, run.posOf(instr))
	st.Assume(Neq(p, IntLit(0)))
}

func (run *FuncRun) execUnOp(st *State, in *ssa.UnOp) {
	switch in.Op {
	case token.MUL: // load
		addr := run.val(st, in.X)
		switch a := addr.(type) {
		case *LVal:
			v := run.load(st, a)
			run.afterLoad(st, v, in.Type())
			run.set(st, in, v)
		case Term:
			run.nilCheck(st, a, in)
			v := run.load(st, run.derefPtr(st, a, under(in.X.Type()).(*types.Pointer).Elem()))
			run.afterLoad(st, v, in.Type())
			run.set(st, in, v)
		default:
			fail("%s: load from %T", run.key, addr)
		}
	case token.NOT:
		run.set(st, in, Not(run.term(st, in.X)))
	case token.SUB:
		run.set(st, in, app(SInt, "-", run.term(st, in.X)))
	case token.XOR:
		run.set(st, in, st.Fresh("bits", SInt))
	default:
		fail("%s: unsupported unary op %s", run.key, in.Op)
	}
}

// afterLoad assumes the closed-heap invariant for loaded references.
func (run *FuncRun) afterLoad(st *State, v Val, ty types.Type) {
	t, ok := v.(Term)
	if !ok {
		return
	}
	switch under(ty).(type) {
	case *types.Pointer, *types.Map:
		if !strings.HasPrefix(t.S, "r!") && t.S != "0" {
			st.Assume(And(Ge(t, IntLit(0)), Lt(t, st.alloc)))
		}
	case *types.Slice:
		st.assumeSliceWF(t)
	}
}

func (run *FuncRun) binop(st *State, in *ssa.BinOp) Term {
	x := run.val(st, in.X)
	y := run.val(st, in.Y)
	xt, xok := x.(Term)
	yt, yok := y.(Term)
	if !xok || !yok {
		// function value comparisons with nil
		if in.Op == token.EQL || in.Op == token.NEQ {
			isNil := func(v Val) (bool, bool) {
				switch f := v.(type) {
				case *FuncVal, *Closure:
					_ = f
					return false, true
				case Term:
					if f.S == "func_nil" {
						return true, true
					}
				}
				return false, false
			}
			a, aok := isNil(x)
			b, bok := isNil(y)
			if aok && bok {
				return BoolLit((a == b) == (in.Op == token.EQL))
			}
		}
		xt = run.valToTerm(st, x)
		yt = run.valToTerm(st, y)
	}
	so := xt.Sort
	switch in.Op {
	case token.EQL:
		return Eq(xt, yt)
	case token.NEQ:
		return Neq(xt, yt)
	}
	switch so {
	case SInt:
		switch in.Op {
		case token.ADD:
			return Add(xt, yt)
		case token.SUB:
			return Sub(xt, yt)
		case token.MUL:
			return Mul(xt, yt)
		case token.QUO:
			run.addObligation(st, "div", "", Neq(yt, IntLit(0)), "division by zero", run.posOf(in))
			// Go truncates toward zero; SMT div floors. Equal for non-negative operands.
			return goDiv(xt, yt)
		case token.REM:
			run.addObligation(st, "div", "", Neq(yt, IntLit(0)), "division by zero", run.posOf(in))
			return goRem(xt, yt)
		case token.LSS:
			return Lt(xt, yt)
		case token.LEQ:
			return Le(xt, yt)
		case token.GTR:
			return Gt(xt, yt)
		case token.GEQ:
			return Ge(xt, yt)
		case token.AND, token.OR, token.XOR, token.SHL, token.SHR, token.AND_NOT:
			return st.Fresh("bits", SInt)
		}
	case SString:
		switch in.Op {
		case token.ADD:
			return app(SString, "str.++", xt, yt)
		case token.LSS:
			return app(SBool, "str.<", xt, yt)
		case token.LEQ:
			return app(SBool, "str.<=", xt, yt)
		case token.GTR:
			return app(SBool, "str.<", yt, xt)
		case token.GEQ:
			return app(SBool, "str.<=", yt, xt)
		}
	case SBool:
		switch in.Op {
		case token.AND, token.LAND:
			return And(xt, yt)
		case token.OR, token.LOR:
			return Or(xt, yt)
		}
	case SFloat:
		switch in.Op {
		case token.LSS, token.LEQ, token.GTR, token.GEQ:
			return st.Fresh("fcmp", SBool)
		default:
			return st.Fresh("fop", SFloat)
		}
	}
	fail("%s: unsupported binary op %s on sort %s", run.key, in.Op, so)
	return Term{}
}

func goDiv(x, y Term) Term {
	// truncated division
	q := app(SInt, "div", x, y)
	return Ite(Or(Ge(x, IntLit(0)), Eq(app(SInt, "mod", x, y), IntLit(0))), q,
		Ite(Gt(y, IntLit(0)), Add(q, IntLit(1)), Sub(q, IntLit(1))))
}

func goRem(x, y Term) Term {
	return Sub(x, Mul(y, goDiv(x, y)))
}

func (run *FuncRun) convertSort(st *State, x Term, from, to types.Type) Term {
	reg := run.eng.reg
	so := reg.SortOf(to)
	if x.Sort == so {
		return x
	}
	switch {
	case x.Sort == SString && so == SSlice, x.Sort == SSlice && so == SString:
		// []byte <-> string: abstract injective pair
		fn := "bytes_of_string"
		if so == SString {
			fn = "string_of_bytes"
		}
		run.declare("bytes_of_string", "(declare-fun bytes_of_string (String) Slice)")
		run.declare("string_of_bytes", "(declare-fun string_of_bytes (Slice) String)")
		run.declare("ax:bytes_string", "(assert (forall ((s String)) (! (= (string_of_bytes (bytes_of_string s)) s) :pattern ((bytes_of_string s)))))")
		return app(so, fn, x)
	case x.Sort == SInt && so == SFloat, x.Sort == SFloat && so == SInt:
		return st.Fresh("conv", so)
	case x.Sort == SInt && so == SString:
		return st.Fresh("runestr", SString)
	}
	fail("%s: unsupported conversion %s -> %s", run.key, from, to)
	return Term{}
}

func (run *FuncRun) execIndexAddr(st *State, in *ssa.IndexAddr) {
	reg := run.eng.reg
	base := run.val(st, in.X)
	idx := run.term(st, in.Index)
	switch xt := under(in.X.Type()).(type) {
	case *types.Slice:
		s := run.valToTerm(st, base)
		es := reg.SortOf(xt.Elem())
		run.addObligation(st, "bounds", "", And(Ge(idx, IntLit(0)), Lt(idx, SliceLen(s))), fmt.Sprintf("index %s in range of %s", in.Index.Name(), in.X.Name()), run.posOf(in))
		st.Assume(And(Ge(idx, IntLit(0)), Lt(idx, SliceLen(s))))
		run.set(st, in, &LVal{Root: rElem, Sort: es, Ref: SliceArr(s), Idx: idx, Type: xt.Elem()})
	case *types.Pointer:
		at := under(xt.Elem()).(*types.Array)
		es := reg.SortOf(at.Elem())
		switch b := base.(type) {
		case Term:
			if c, ok := in.Index.(*ssa.Const); !ok || c.Int64() < 0 || c.Int64() >= at.Len() {
				run.addObligation(st, "bounds", "", And(Ge(idx, IntLit(0)), Lt(idx, IntLit(at.Len()))), "array index in range", run.posOf(in))
			}
			run.set(st, in, &LVal{Root: rElem, Sort: es, Ref: b, Idx: idx, Type: at.Elem()})
		case *LVal:
			if c, ok := in.Index.(*ssa.Const); !ok || c.Int64() < 0 || c.Int64() >= at.Len() {
				run.addObligation(st, "bounds", "", And(Ge(idx, IntLit(0)), Lt(idx, IntLit(at.Len()))), "array index in range", run.posOf(in))
			}
			i := idx
			run.set(st, in, b.extend(PathElem{Idx: &i}, at.Elem()))
		default:
			fail("%s: indexaddr on %T", run.key, base)
		}
	default:
		fail("%s: indexaddr on type %s", run.key, in.X.Type())
	}
}

func (run *FuncRun) execLookup(st *State, in *ssa.Lookup) {
	reg := run.eng.reg
	switch xt := under(in.X.Type()).(type) {
	case *types.Map:
		m := run.term(st, in.X)
		k := run.term(st, in.Index)
		mc := run.mapComps(xt)
		dom := Select(mapDom(st, mc, m), k)
		val := Ite(dom, Select(mapVal(st, mc, m), k), reg.Zero(mc.V))
		run.mapAxioms(st, mc, m)
		if in.CommaOk {
			run.set(st, in, Tuple{val, dom})
		} else {
			run.set(st, in, val)
		}
		run.afterLoad(st, val, xt.Elem())
	default:
		// string index
		run.set(st, in, st.Fresh("byte", SInt))
	}
}

// mapAxioms states the sound consequences of card = |dom| for one map object
// in the current heap, plus nil-map emptiness.
func (run *FuncRun) mapAxioms(st *State, mc MapComps, m Term) {
	dom := mapDom(st, mc, m)
	card := mapCard(st, mc, m)
	key := "mapax:" + dom.S + card.S
	if run.decls[key] != "" {
		// already stated for this exact heap version (globally true facts; safe to share)
		return
	}
	wit := quote("witness:" + string(mc.K))
	run.declare(wit, "(declare-fun "+wit+" ("+string(ArrSort(mc.K, SBool))+") "+string(mc.K)+")")
	st.Assume(Ge(card, IntLit(0)))
	st.Assume(Implies(Gt(card, IntLit(0)), Select(dom, app(mc.K, wit, dom))))
	k := run.freshName("k")
	st.Assume(Term{fmt.Sprintf("(forall ((%s %s)) (! (=> (select %s %s) (> %s 0)) :pattern ((select %s %s))))", k, mc.K, dom.S, k, card.S, dom.S, k), SBool})
	st.Assume(Implies(Eq(m, IntLit(0)), Eq(card, IntLit(0))))
}

func (run *FuncRun) mapStore(st *State, mt *types.Map, m, k, v Term) {
	mc := run.mapComps(mt)
	run.mapAxioms(st, mc, m)
	domH := st.H(mc.Dom, mc.DomS)
	valH := st.H(mc.Val, mc.ValS)
	cardH := st.H(mc.Card, mc.CardS)
	dom := Select(domH, m)
	had := Select(dom, k)
	st.SetH(mc.Card, Store(cardH, m, Ite(had, Select(cardH, m), Add(Select(cardH, m), IntLit(1)))))
	st.SetH(mc.Dom, Store(domH, m, Store(dom, k, TTrue)))
	st.SetH(mc.Val, Store(valH, m, Store(Select(valH, m), k, v)))
	run.noteMapMutation(st, mc, m, k, false)
}

func (run *FuncRun) mapDelete(st *State, mt *types.Map, m, k Term) {
	mc := run.mapComps(mt)
	run.mapAxioms(st, mc, m)
	domH := st.H(mc.Dom, mc.DomS)
	cardH := st.H(mc.Card, mc.CardS)
	dom := Select(domH, m)
	had := Select(dom, k)
	// delete on a nil map is a no-op
	isNil := Eq(m, IntLit(0))
	st.SetH(mc.Card, Store(cardH, m, Ite(And(had, Not(isNil)), Sub(Select(cardH, m), IntLit(1)), Select(cardH, m))))
	st.SetH(mc.Dom, Store(domH, m, Ite(isNil, dom, Store(dom, k, TFalse))))
	run.noteMapMutation(st, mc, m, k, true)
}

func (run *FuncRun) execSlice(st *State, in *ssa.Slice) {
	reg := run.eng.reg
	if in.Low != nil {
		if c, ok := in.Low.(*ssa.Const); !ok || c.Int64() != 0 {
			fail("%s: slicing with a non-zero low bound is outside the modelled subset", run.key)
		}
	}
	if in.Max != nil {
		fail("%s: 3-index slices are outside the modelled subset", run.key)
	}
	switch xt := under(in.X.Type()).(type) {
	case *types.Pointer: // pointer to array
		at := under(xt.Elem()).(*types.Array)
		base, ok := run.val(st, in.X).(Term)
		if !ok {
			fail("%s: slice of non-heap array", run.key)
		}
		n := IntLit(at.Len())
		hi := n
		if in.High != nil {
			hi = run.term(st, in.High)
		}
		run.set(st, in, MkSlice(base, hi, n))
		_ = reg
	case *types.Slice:
		s := run.term(st, in.X)
		if in.High == nil {
			run.set(st, in, s)
			return
		}
		hi := run.term(st, in.High)
		run.addObligation(st, "bounds", "slice", And(Ge(hi, IntLit(0)), Le(hi, SliceCap(s))), "slice bound in range", run.posOf(in))
		run.set(st, in, MkSlice(SliceArr(s), hi, SliceCap(s)))
	case *types.Basic:
		run.set(st, in, st.Fresh("substr", SString))
	default:
		fail("%s: unsupported slice of %s", run.key, in.X.Type())
	}
}

func (run *FuncRun) execTypeAssert(st *State, in *ssa.TypeAssert) {
	reg := run.eng.reg
	x := run.term(st, in.X)
	var ok, val Term
	at := in.AssertedType
	if hasTypeParam(at) {
		fail("%s: type assertion to %s depends on a type parameter; verify the instantiations instead of the generic body", run.key, at)
	}
	if isIface(at) {
		ok = run.eng.implementsTerm(run, x, at)
		val = x
	} else {
		ok = reg.IsBoxed(at, x)
		val = reg.Unbox(at, x)
	}
	if in.CommaOk {
		// Go zeroes the value when the assertion fails
		zero := reg.Zero(val.Sort)
		run.set(st, in, Tuple{Ite(ok, val, zero), ok})
		return
	}
	run.addObligation(st, "assert", "", ok, fmt.Sprintf("type assertion to %s succeeds", reg.TypeKey(at)), run.posOf(in))
	st.Assume(ok)
	run.set(st, in, val)
}

func hasTypeParam(t types.Type) bool {
	found := false
	var visit func(t types.Type, depth int)
	visit = func(t types.Type, depth int) {
		if found || depth > 6 {
			return
		}
		switch x := types.Unalias(t).(type) {
		case *types.TypeParam:
			found = true
		case *types.Pointer:
			visit(x.Elem(), depth+1)
		case *types.Slice:
			visit(x.Elem(), depth+1)
		case *types.Array:
			visit(x.Elem(), depth+1)
		case *types.Map:
			visit(x.Key(), depth+1)
			visit(x.Elem(), depth+1)
		case *types.Named:
			ta := x.TypeArgs()
			for i := 0; i < ta.Len(); i++ {
				visit(ta.At(i), depth+1)
			}
		}
	}
	visit(t, 0)
	return found
}

// isIface: a genuine interface type (type parameters are not).
func isIface(t types.Type) bool {
	if _, ok := types.Unalias(t).(*types.TypeParam); ok {
		return false
	}
	return types.IsInterface(t)
}
