package main

// Discharging obligations with z3 4.8.12, z3 5.1.0 and cvc5, in parallel.

import (
	"context"
	"crypto/sha256"
	"fmt"
	"os"
	"os/exec"
	"path/filepath"
	"strings"
	"sync"
	"time"
)

type SolverCfg struct {
	Name string
	Cmd  []string // file name appended
	NoLambda bool
}

func solverConfigs(timeoutS int) []SolverCfg {
	t := fmt.Sprint(timeoutS)
	return []SolverCfg{
		{Name: "z3-5.1.0/ematching", Cmd: []string{"z3-new", "-smt2", "-T:" + t, "smt.mbqi=false", "auto_config=false"}},
		{Name: "z3-5.1.0/default", Cmd: []string{"z3-new", "-smt2", "-T:" + t}},
		{Name: "cvc5-1.0.3", Cmd: []string{"cvc5", "--lang=smt2", "--strings-exp", "--tlimit=" + fmt.Sprint(timeoutS*1000)}},
		{Name: "z3-4.8.12/default", Cmd: []string{"z3", "-smt2", "-T:" + t}},
	}
}

type Result struct {
	Obl     *Obligation
	Run     *FuncRun
	Status  string // unsat, sat, unknown, timeout, error
	Solver  string
	Ms      int64
	Output  string
	File    string
	Tried   []string
}

func (r *Result) OK() bool {
	if r.Obl.ExpectSat {
		return r.Status != "unsat"
	}
	return r.Status == "unsat"
}

func runSolver(cfg SolverCfg, file string, timeoutS int) (status, output string, ms int64) {
	return runSolverCtx(context.Background(), cfg, file, timeoutS)
}

// runSolverCtx: as runSolver, under a parent context; a run ended by the parent (another
// solver of the race answered first) reports "cancelled".
func runSolverCtx(parent context.Context, cfg SolverCfg, file string, timeoutS int) (status, output string, ms int64) {
	ctx, cancel := context.WithTimeout(parent, time.Duration(timeoutS+2)*time.Second)
	defer cancel()
	start := time.Now()
	cmd := exec.CommandContext(ctx, cfg.Cmd[0], append(cfg.Cmd[1:], file)...)
	out, _ := cmd.CombinedOutput()
	ms = time.Since(start).Milliseconds()
	output = string(out)
	first := ""
	for _, l := range strings.Split(output, "\n") {
		l = strings.TrimSpace(l)
		if l == "" || strings.HasPrefix(l, "WARNING") || strings.HasPrefix(l, "(warning") {
			continue
		}
		first = l
		break
	}
	switch first {
	case "unsat", "sat", "unknown":
		return first, output, ms
	case "timeout":
		return "timeout", output, ms
	}
	if parent.Err() != nil {
		return "cancelled", output, ms
	}
	if ctx.Err() != nil || strings.Contains(output, "timeout") || strings.Contains(output, "interrupted") {
		return "timeout", output, ms
	}
	return "error", output, ms
}

// hedgeAfter: the E-matching-only configuration decides almost every obligation in well under a
// second; when it has not answered after this long the remaining configurations are started
// beside it (a race, first conclusive answer wins) instead of after its timeout. Obligations that
// need MBQI or cvc5 then cost a few seconds instead of a full E-matching timeout first, and every
// configuration gets the whole per-obligation budget - which keeps the unchanged tree far from
// the timeout when the machine is loaded.
const hedgeAfter = 2 * time.Second

// Discharge runs all obligations, up to par at a time.
func Discharge(items []struct {
	Run *FuncRun
	Obl *Obligation
}, workDir string, timeoutS int, par int, thorough bool) []*Result {
	os.MkdirAll(workDir, 0o755)
	results := make([]*Result, len(items))
	var wg sync.WaitGroup
	sem := make(chan struct{}, par)
	for i := range items {
		wg.Add(1)
		go func(i int) {
			defer wg.Done()
			sem <- struct{}{}
			defer func() { <-sem }()
			it := items[i]
			text := it.Run.Assemble(it.Obl)
			h := sha256.Sum256([]byte(text))
			file := filepath.Join(workDir, fmt.Sprintf("%x.smt2", h[:8]))
			os.WriteFile(file, []byte(text), 0o644)
			res := &Result{Obl: it.Obl, Run: it.Run, File: file}
			if it.Obl.ExpectSat {
				// vacuity cover: must not be unsat
				st, out, ms := runSolver(SolverCfg{Name: "z3-5.1.0/cover", Cmd: []string{"z3-new", "-smt2", "-T:3"}}, file, 3)
				res.Status, res.Output, res.Ms, res.Solver = st, out, ms, "z3-5.1.0/default"
				results[i] = res
				return
			}
			cfgs := solverConfigs(timeoutS)
			if !thorough {
				cfgs = cfgs[:3] // quick: z3 5.1 E-matching, z3 5.1 default, cvc5
			}
			type solverOut struct {
				ci      int
				st, out string
				ms      int64
			}
			var run []int
			for ci, cfg := range cfgs {
				if cfg.Name == "cvc5-1.0.3" && strings.Contains(text, "(lambda ") {
					continue
				}
				run = append(run, ci)
			}
			ctx, cancel := context.WithCancel(context.Background())
			ch := make(chan solverOut, len(run))
			launched, pending := 0, 0
			launch := func() {
				ci := run[launched]
				launched++
				pending++
				go func() {
					st, out, ms := runSolverCtx(ctx, cfgs[ci], file, timeoutS)
					ch <- solverOut{ci, st, out, ms}
				}()
			}
			launch()
			hedge := time.After(hedgeAfter)
			for pending > 0 {
				select {
				case <-hedge:
					for launched < len(run) {
						launch()
					}
				case r := <-ch:
					pending--
					if r.st == "cancelled" {
						continue
					}
					res.Tried = append(res.Tried, fmt.Sprintf("%s=%s(%dms)", cfgs[r.ci].Name, r.st, r.ms))
					res.Ms += r.ms
					// E-matching-only "sat" under quantifiers is only a candidate model: not conclusive
					conclusive := r.st == "unsat" || (r.st == "sat" && !(r.ci == 0 && strings.Contains(text, "forall")))
					if conclusive {
						res.Status, res.Output, res.Solver = r.st, r.out, cfgs[r.ci].Name
						cancel()
						for launched < len(run) {
							launched++ // nothing more to start
						}
						continue
					}
					if res.Status == "" || res.Status == "error" || (r.st == "sat" && res.Status != "unsat") {
						res.Status, res.Output, res.Solver = r.st, r.out, cfgs[r.ci].Name
					}
					for launched < len(run) {
						launch()
					}
				}
			}
			cancel()
			results[i] = res
		}(i)
	}
	wg.Wait()
	return results
}
