package main

// gowp mutant <patch.diff> <property> [tier]: verify the property on /repo with
// a patch applied through an overlay (the repository is never written).

import (
	"encoding/json"
	"fmt"
	"os"
	"os/exec"
	"path/filepath"
	"strings"
)

func overlayFromPatch(patch string) (map[string][]byte, error) {
	if abs, err := filepath.Abs(patch); err == nil {
		patch = abs
	}
	data, err := os.ReadFile(patch)
	if err != nil {
		return nil, err
	}
	tmp, err := os.MkdirTemp("", "gowp-mutant")
	if err != nil {
		return nil, err
	}
	defer os.RemoveAll(tmp)
	var files []string
	for _, l := range strings.Split(string(data), "\n") {
		if strings.HasPrefix(l, "+++ ") {
			f := strings.Fields(l)[1]
			f = strings.TrimPrefix(f, "b/")
			if f == "/dev/null" {
				continue
			}
			files = append(files, f)
		}
	}
	for _, f := range files {
		src := filepath.Join(repoDir(), f)
		dst := filepath.Join(tmp, f)
		os.MkdirAll(filepath.Dir(dst), 0o755)
		if b, err := os.ReadFile(src); err == nil {
			os.WriteFile(dst, b, 0o644)
		}
	}
	cmd := exec.Command("patch", "-p1", "-s", "-d", tmp, "-i", patch)
	if out, err := cmd.CombinedOutput(); err != nil {
		return nil, fmt.Errorf("patch failed: %v: %s", err, out)
	}
	ov := map[string][]byte{}
	for _, f := range files {
		b, err := os.ReadFile(filepath.Join(tmp, f))
		if err != nil {
			return nil, err
		}
		ov[filepath.Join(repoDir(), f)] = b
	}
	return ov, nil
}

func cmdMutant(args []string) {
	if len(args) < 2 {
		fmt.Fprintln(os.Stderr, "usage: gowp mutant <patch.diff> <property> [tier]")
		os.Exit(2)
	}
	patch, id := args[0], args[1]
	tier := "quick"
	if len(args) > 2 {
		tier = args[2]
	}
	var cfg PropConfig
	data, err := os.ReadFile(filepath.Join(verifDir(), "props", id+".json"))
	if err != nil {
		fmt.Fprintln(os.Stderr, err)
		os.Exit(2)
	}
	json.Unmarshal(data, &cfg)
	ov, err := overlayFromPatch(patch)
	if err != nil {
		fmt.Fprintln(os.Stderr, err)
		os.Exit(2)
	}
	eng, err := LoadEngine(repoDir(), ov, extSpecs())
	if err != nil {
		fmt.Printf("MUTANT %s property=%s result=does-not-compile %v\n", filepath.Base(patch), id, err)
		os.Exit(3)
	}
	eng.preRegister()
	// GOWP_MUTANT_FUNC=<function key without type arguments and closure suffix>: the patch only
	// changes that function's body. Verification is modular - callers are checked against its
	// contract, which the patch does not touch - so only its own obligations (and its closures')
	// can change, unless the function is executed in place by its callers (no contract of its own
	// in this cone, or an `inline` contract); then the whole cone is run.
	if target := os.Getenv("GOWP_MUTANT_FUNC"); target != "" {
		var keep []PropFunc
		inline := false
		for _, f := range cfg.Functions {
			if mutantNormKey(f.Key) == target {
				keep = append(keep, f)
				for _, fn := range eng.findFuncs(f.Key) {
					if c := eng.contractFor(fn); c != nil && c.Inline {
						inline = true
					}
				}
			}
		}
		if len(keep) > 0 && !inline {
			cfg.Functions = keep
			cfg.MinObligations = 0
		}
	}
	timeout := 20
	if tier == "thorough" {
		timeout = 60
	}
	work := filepath.Join(verifDir(), ".work", fmt.Sprintf("mut-%s-%d", id, os.Getpid()))
	pr := eng.runProperty(&cfg, tier, timeout, work)
	failed := map[string]bool{}
	for _, r := range pr.results {
		if !r.OK() {
			failed[r.Obl.Name()] = true
		}
	}
	os.RemoveAll(work)
	for _, sc := range cfg.Static {
		if sc == "global-writes" {
			fs, _, _ := eng.scanGlobalWrites()
			for _, f := range fs {
				failed[f.Name()] = true
			}
		}
	}
	var ab []string
	for _, run := range pr.aborted {
		ab = append(ab, run.key+": "+run.aborted)
	}
	names := sortedKeys(failed)
	status := "survived"
	if len(names) > 0 {
		status = "killed"
	} else if len(ab) > 0 || len(pr.missing) > 0 {
		status = "degraded"
	}
	fmt.Printf("MUTANT %s property=%s result=%s failing=%v aborted=%v missing=%v\n", filepath.Base(patch), id, status, names, ab, pr.missing)
	if status == "killed" {
		os.Exit(0)
	}
	os.Exit(1)
}

func mutantNormKey(k string) string {
	if i := strings.Index(k, "["); i >= 0 {
		if j := strings.LastIndex(k, "]"); j > i {
			k = k[:i] + k[j+1:]
		}
	}
	if i := strings.Index(k, "$"); i >= 0 {
		k = k[:i]
	}
	return k
}
