package main

// SMT term layer: terms are s-expression strings with a sort. All Go-level
// reasoning about structure is done while generating; nothing is re-parsed.

import (
	"fmt"
	"hash/fnv"
	"sort"
	"strconv"
	"strings"
)

// Sort is the SMT-LIB text of a sort.
type Sort string

const (
	SInt    Sort = "Int"
	SBool   Sort = "Bool"
	SString Sort = "String"
	SSlice  Sort = "Slice"
	SAny    Sort = "Any"
	SFloat  Sort = "Float"
	SFunc   Sort = "Func"
	SRef    Sort = "Ref" // (define-sort Ref () Int): references, kept apart from numbers by name only
)

func sortCompat(a, b Sort) bool {
	return a == b || ((a == SInt || a == SRef) && (b == SInt || b == SRef)) || (isAnySort(a) && isAnySort(b))
}

// isAnySort: Any and its per-interface aliases (define-sort AnyI_<iface> () Any),
// which exist only to keep arrays of different interface element types apart.
func isAnySort(s Sort) bool { return s == SAny || strings.HasPrefix(string(s), "AnyI_") }

func ArrSort(idx, elem Sort) Sort { return Sort("(Array " + string(idx) + " " + string(elem) + ")") }

// Term is an immutable SMT term.
type Term struct {
	S    string
	Sort Sort
}

func (t Term) String() string { return t.S }
func (t Term) IsZeroTerm() bool { return t.S == "" }

func mk(s string, so Sort) Term { return Term{s, so} }

func app(so Sort, f string, args ...Term) Term {
	var b strings.Builder
	b.WriteByte('(')
	b.WriteString(f)
	for _, a := range args {
		b.WriteByte(' ')
		b.WriteString(a.S)
	}
	b.WriteByte(')')
	return Term{b.String(), so}
}

var (
	TTrue  = Term{"true", SBool}
	TFalse = Term{"false", SBool}
)

func IntLit(n int64) Term {
	if n < 0 {
		return Term{"(- " + strconv.FormatInt(-n, 10) + ")", SInt}
	}
	return Term{strconv.FormatInt(n, 10), SInt}
}

func BoolLit(b bool) Term {
	if b {
		return TTrue
	}
	return TFalse
}

// StrLit encodes a Go string as an SMT-LIB 2.6 string literal.
func StrLit(s string) Term {
	var b strings.Builder
	b.WriteByte('"')
	for _, r := range s {
		switch {
		case r == '"':
			b.WriteString(`""`)
		case r == '\\':
			b.WriteString(`\u{5c}`)
		case r >= 0x20 && r < 0x7f:
			b.WriteRune(r)
		default:
			fmt.Fprintf(&b, `\u{%x}`, r)
		}
	}
	b.WriteByte('"')
	return Term{b.String(), SString}
}

func And(ts ...Term) Term {
	var xs []Term
	for _, t := range ts {
		if t.S == "true" {
			continue
		}
		if t.S == "false" {
			return TFalse
		}
		xs = append(xs, t)
	}
	switch len(xs) {
	case 0:
		return TTrue
	case 1:
		return xs[0]
	}
	return app(SBool, "and", xs...)
}

func Or(ts ...Term) Term {
	var xs []Term
	for _, t := range ts {
		if t.S == "false" {
			continue
		}
		if t.S == "true" {
			return TTrue
		}
		xs = append(xs, t)
	}
	switch len(xs) {
	case 0:
		return TFalse
	case 1:
		return xs[0]
	}
	return app(SBool, "or", xs...)
}

func Not(t Term) Term {
	switch t.S {
	case "true":
		return TFalse
	case "false":
		return TTrue
	}
	if strings.HasPrefix(t.S, "(not ") {
		return Term{t.S[5 : len(t.S)-1], SBool}
	}
	return app(SBool, "not", t)
}

func Implies(a, b Term) Term {
	if a.S == "true" {
		return b
	}
	if a.S == "false" || b.S == "true" {
		return TTrue
	}
	return app(SBool, "=>", a, b)
}

func Eq(a, b Term) Term {
	if a.S == b.S {
		return TTrue
	}
	if x, ok := intVal(a); ok {
		if y, ok := intVal(b); ok {
			return BoolLit(x == y)
		}
	}
	if !sortCompat(a.Sort, b.Sort) {
		panic(fmt.Sprintf("Eq: sort mismatch %s:%s vs %s:%s", a.S, a.Sort, b.S, b.Sort))
	}
	return app(SBool, "=", a, b)
}

func Neq(a, b Term) Term { return Not(Eq(a, b)) }

func Ite(c, a, b Term) Term {
	if c.S == "true" {
		return a
	}
	if c.S == "false" {
		return b
	}
	if a.S == b.S {
		return a
	}
	if !sortCompat(a.Sort, b.Sort) {
		panic(fmt.Sprintf("Ite: sort mismatch %s vs %s", a.Sort, b.Sort))
	}
	return app(a.Sort, "ite", c, a, b)
}

// intVal recognises integer literals.
func intVal(t Term) (int64, bool) {
	s := t.S
	if strings.HasPrefix(s, "(- ") && strings.HasSuffix(s, ")") {
		if v, err := strconv.ParseInt(s[3:len(s)-1], 10, 64); err == nil {
			return -v, true
		}
		return 0, false
	}
	if s == "" || s[0] < '0' || s[0] > '9' {
		return 0, false
	}
	v, err := strconv.ParseInt(s, 10, 64)
	return v, err == nil
}

func Add(a, b Term) Term {
	if x, ok := intVal(a); ok {
		if y, ok := intVal(b); ok {
			return IntLit(x + y)
		}
	}
	return app(SInt, "+", a, b)
}
func Sub(a, b Term) Term {
	if x, ok := intVal(a); ok {
		if y, ok := intVal(b); ok {
			return IntLit(x - y)
		}
	}
	return app(SInt, "-", a, b)
}
func Mul(a, b Term) Term { return app(SInt, "*", a, b) }
func cmpFold(op string, a, b Term, f func(x, y int64) bool) Term {
	if x, ok := intVal(a); ok {
		if y, ok := intVal(b); ok {
			return BoolLit(f(x, y))
		}
	}
	return app(SBool, op, a, b)
}
func Lt(a, b Term) Term { return cmpFold("<", a, b, func(x, y int64) bool { return x < y }) }
func Le(a, b Term) Term { return cmpFold("<=", a, b, func(x, y int64) bool { return x <= y }) }
func Gt(a, b Term) Term { return cmpFold(">", a, b, func(x, y int64) bool { return x > y }) }
func Ge(a, b Term) Term { return cmpFold(">=", a, b, func(x, y int64) bool { return x >= y }) }

// elemSort extracts the element sort of an (Array I E) sort.
func (s Sort) arrayParts() (Sort, Sort) {
	str := string(s)
	if !strings.HasPrefix(str, "(Array ") {
		panic("not an array sort: " + str)
	}
	inner := str[len("(Array ") : len(str)-1]
	// split at top-level space
	depth := 0
	inBar := false
	for i := 0; i < len(inner); i++ {
		c := inner[i]
		switch {
		case c == '|':
			inBar = !inBar
		case inBar:
		case c == '(':
			depth++
		case c == ')':
			depth--
		case c == ' ' && depth == 0:
			return Sort(inner[:i]), Sort(inner[i+1:])
		}
	}
	panic("bad array sort " + str)
}

func Select(a, i Term) Term {
	_, e := a.Sort.arrayParts()
	return app(e, "select", a, i)
}

func Store(a, i, v Term) Term {
	ix, e := a.Sort.arrayParts()
	if !sortCompat(i.Sort, ix) || !sortCompat(v.Sort, e) {
		panic(fmt.Sprintf("Store: sort mismatch array %s idx %s val %s (%s)", a.Sort, i.Sort, v.Sort, v.S))
	}
	return app(a.Sort, "store", a, i, v)
}

// constArrayHook lets the registry replace constant arrays whose element is
// not an SMT value (cvc5 rejects those) by an axiomatised constant.
var constArrayHook func(s Sort, v Term) (Term, bool)

func ConstArray(s Sort, v Term) Term {
	if constArrayHook != nil {
		if t, ok := constArrayHook(s, v); ok {
			return t
		}
	}
	return Term{"((as const " + string(s) + ") " + v.S + ")", s}
}

// Slice helpers (datatype Slice = mk_slice(arr,len,cap)).
// mkSliceParts splits a literal (mk_slice a l c) term.
func mkSliceParts(s Term) ([3]string, bool) {
	var out [3]string
	str := s.S
	if !strings.HasPrefix(str, "(mk_slice ") || !strings.HasSuffix(str, ")") {
		return out, false
	}
	body := str[len("(mk_slice ") : len(str)-1]
	depth, start, n := 0, 0, 0
	for i := 0; i <= len(body); i++ {
		if i == len(body) || (body[i] == ' ' && depth == 0) {
			if n > 2 {
				return out, false
			}
			out[n] = body[start:i]
			n++
			start = i + 1
			continue
		}
		switch body[i] {
		case '(':
			depth++
		case ')':
			depth--
		}
	}
	return out, n == 3
}

func SliceArr(s Term) Term {
	if p, ok := mkSliceParts(s); ok {
		return Term{p[0], SInt}
	}
	return app(SInt, "sl_arr", s)
}
func SliceLen(s Term) Term {
	if p, ok := mkSliceParts(s); ok {
		return Term{p[1], SInt}
	}
	return app(SInt, "sl_len", s)
}
func SliceCap(s Term) Term {
	if p, ok := mkSliceParts(s); ok {
		return Term{p[2], SInt}
	}
	return app(SInt, "sl_cap", s)
}
func MkSlice(arr, ln, cp Term) Term {
	return app(SSlice, "mk_slice", arr, ln, cp)
}

var NilSlice = Term{"(mk_slice 0 0 0)", SSlice}
var NilAny = Term{"nil_any", SAny}

// quote makes a plain SMT symbol out of an arbitrary name: characters outside
// the simple-symbol alphabet are replaced and a short hash of the original
// name keeps the result unique (cvc5 1.0 mishandles |quoted| symbols in
// datatype testers, so quoted symbols are avoided altogether).
func quote(name string) string {
	simple := name != "" && !(name[0] >= '0' && name[0] <= '9')
	for _, r := range name {
		if !(r >= 'a' && r <= 'z' || r >= 'A' && r <= 'Z' || r >= '0' && r <= '9' || r == '_' || r == '.' || r == '!' || r == '$' || r == '@') {
			simple = false
			break
		}
	}
	if simple {
		return name
	}
	var b strings.Builder
	for _, r := range name {
		if r >= 'a' && r <= 'z' || r >= 'A' && r <= 'Z' || r >= '0' && r <= '9' || r == '_' || r == '.' || r == '$' || r == '@' {
			b.WriteRune(r)
		} else {
			b.WriteByte('_')
		}
	}
	h := fnv.New32a()
	h.Write([]byte(name))
	out := b.String()
	if out[0] >= '0' && out[0] <= '9' {
		out = "s" + out
	}
	return fmt.Sprintf("%s_%06x", out, h.Sum32()&0xffffff)
}

// Script accumulates declarations and assertions in order. It is a persistent
// structure: Fork shares the prefix.
type Script struct {
	lines    []string
	declared map[string]bool
}

func (s *Script) Fork() *Script {
	n := &Script{lines: make([]string, len(s.lines), len(s.lines)+64), declared: make(map[string]bool, len(s.declared))}
	copy(n.lines, s.lines)
	for k := range s.declared {
		n.declared[k] = true
	}
	return n
}

// Declare adds a declaration (with its axioms) once per path.
func (s *Script) Declare(name, text string) {
	if s.declared == nil {
		s.declared = map[string]bool{}
	}
	if s.declared[name] {
		return
	}
	s.declared[name] = true
	s.lines = append(s.lines, text)
}

func (s *Script) Add(line string)   { s.lines = append(s.lines, line) }
func (s *Script) Assert(t Term) {
	if t.S == "true" {
		return
	}
	s.lines = append(s.lines, "(assert "+t.S+")")
}
func (s *Script) Comment(c string) {
	s.lines = append(s.lines, "; "+strings.ReplaceAll(c, "\n", " "))
}

func sortedKeys[V any](m map[string]V) []string {
	ks := make([]string, 0, len(m))
	for k := range m {
		ks = append(ks, k)
	}
	sort.Strings(ks)
	return ks
}
