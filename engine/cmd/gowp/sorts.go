package main

// Go types -> SMT sorts. Struct values become datatypes; interfaces become the
// single datatype Any with one boxing constructor per concrete type seen.

import (
	"fmt"
	"go/types"
	"sort"
	"strings"
)

type FieldInfo struct {
	Name     string
	Accessor string
	Sort     Sort
	Type     types.Type
	Embedded bool
}

type StructInfo struct {
	Sort   Sort
	Ctor   string
	Fields []FieldInfo
	Type   types.Type // named or struct type
}

type AnyCon struct {
	Key      string // type string
	Ctor     string
	Accessor string
	Payload  Sort
	Type     types.Type
	TagID    int
	Opaque   bool // dynamic type mentions a type parameter: not a datatype constructor (the tag is unknown)
}

type Registry struct {
	structs     map[Sort]*StructInfo
	structOrder []Sort
	anyCons     map[string]*AnyCon
	anyOrder    []string
	uninterp    map[Sort]bool
	uninterpOrd []Sort
	pkgNames    map[string]string // path -> short name
	typeByKey   map[string]types.Type
	anyAlias    map[Sort]bool
	anyAliasOrd []Sort
	constArrs   map[string]string
	constArrOrder []string
}

func NewRegistry() *Registry {
	r := newRegistry()
	constArrayHook = func(s Sort, v Term) (Term, bool) {
		if !strings.Contains(v.S, "zero.") && !strings.Contains(v.S, "float_zero") && !strings.Contains(v.S, "func_nil") {
			return Term{}, false
		}
		name := quote("constarr:" + string(s) + ":" + v.S)
		if _, ok := r.constArrs[name]; !ok {
			idx, _ := s.arrayParts()
			r.constArrs[name] = fmt.Sprintf("(declare-const %s %s)\n(assert (forall ((i %s)) (! (= (select %s i) %s) :pattern ((select %s i)))))", name, s, idx, name, v.S, name)
			r.constArrOrder = append(r.constArrOrder, name)
		}
		return Term{name, s}, true
	}
	return r
}

func newRegistry() *Registry {
	return &Registry{
		constArrs: map[string]string{},
		structs:   map[Sort]*StructInfo{},
		anyCons:   map[string]*AnyCon{},
		uninterp:  map[Sort]bool{},
		pkgNames:  map[string]string{},
		typeByKey: map[string]types.Type{},
	}
}

const modulePath = "github.com/buildkite/go-pipeline"

func (r *Registry) qualifier(p *types.Package) string {
	if p == nil {
		return ""
	}
	return shortPkg(p.Path(), p.Name())
}

func shortPkg(path, name string) string {
	if path == modulePath {
		return "pipeline"
	}
	if strings.HasPrefix(path, modulePath+"/") {
		rest := path[len(modulePath)+1:]
		if i := strings.LastIndex(rest, "/"); i >= 0 {
			rest = rest[i+1:]
		}
		return rest
	}
	if name != "" {
		return name
	}
	if i := strings.LastIndex(path, "/"); i >= 0 {
		return path[i+1:]
	}
	return path
}

// TypeKey is the canonical printed form of a Go type used in names.
// unaliasDeep removes alias nodes everywhere in a (small) type expression so
// that ordered.MapSA and ordered.Map[string,any] print identically.
func unaliasDeep(t types.Type) types.Type {
	switch x := t.(type) {
	case *types.Alias:
		return unaliasDeep(types.Unalias(x))
	case *types.Pointer:
		e := unaliasDeep(x.Elem())
		if e != x.Elem() {
			return types.NewPointer(e)
		}
	case *types.Slice:
		e := unaliasDeep(x.Elem())
		if e != x.Elem() {
			return types.NewSlice(e)
		}
	case *types.Array:
		e := unaliasDeep(x.Elem())
		if e != x.Elem() {
			return types.NewArray(e, x.Len())
		}
	case *types.Map:
		k, e := unaliasDeep(x.Key()), unaliasDeep(x.Elem())
		if k != x.Key() || e != x.Elem() {
			return types.NewMap(k, e)
		}
	}
	return t
}

func (r *Registry) TypeKey(t types.Type) string {
	t = unaliasDeep(t)
	s := types.TypeString(t, r.qualifier)
	s = strings.ReplaceAll(s, "interface{}", "any")
	return s
}

// coreOf returns the core type of a type parameter's constraint (or nil).
func coreOf(tp *types.TypeParam) types.Type {
	iface, ok := tp.Constraint().Underlying().(*types.Interface)
	if !ok {
		return nil
	}
	var core types.Type
	single := true
	for i := 0; i < iface.NumEmbeddeds(); i++ {
		et := iface.EmbeddedType(i)
		switch e := et.(type) {
		case *types.Union:
			if e.Len() != 1 {
				single = false
				continue
			}
			t := e.Term(0).Type()
			if core != nil && !types.Identical(core, t.Underlying()) {
				single = false
			}
			core = t.Underlying()
		default:
			// embedded interface (e.g. comparable) or type: look through
			if u, ok := et.Underlying().(*types.Interface); ok {
				_ = u
				continue
			}
			core = et.Underlying()
		}
	}
	if !single {
		return nil
	}
	return core
}

// SortOf maps a Go type to its SMT sort, registering datatypes on the way.
func (r *Registry) SortOf(t types.Type) Sort {
	switch tt := t.(type) {
	case *types.Alias:
		return r.SortOf(types.Unalias(tt))
	case *types.Named:
		if st, ok := tt.Underlying().(*types.Struct); ok {
			return r.structSort(tt, st)
		}
		if it, ok := tt.Underlying().(*types.Interface); ok && it.NumMethods() > 0 {
			s := Sort(quote("AnyI_" + r.TypeKey(tt)))
			if !r.anyAlias[s] {
				if r.anyAlias == nil {
					r.anyAlias = map[Sort]bool{}
				}
				r.anyAlias[s] = true
				r.anyAliasOrd = append(r.anyAliasOrd, s)
			}
			return s
		}
		return r.SortOf(tt.Underlying())
	case *types.Basic:
		info := tt.Info()
		switch {
		case info&types.IsBoolean != 0:
			return SBool
		case info&types.IsInteger != 0:
			return SInt
		case info&types.IsString != 0:
			return SString
		case info&(types.IsFloat|types.IsComplex) != 0:
			return SFloat
		case tt.Kind() == types.UnsafePointer:
			return SRef
		case tt.Kind() == types.UntypedNil:
			return SRef
		}
		panic("unsupported basic type " + tt.String())
	case *types.Pointer:
		// make sure pointee datatypes exist
		if _, ok := tt.Elem().Underlying().(*types.Struct); ok {
			r.SortOf(tt.Elem())
		}
		return SRef
	case *types.Slice:
		r.SortOf(tt.Elem())
		return SSlice
	case *types.Map:
		r.SortOf(tt.Key())
		r.SortOf(tt.Elem())
		return SRef
	case *types.Chan:
		return SRef
	case *types.Signature:
		return SFunc
	case *types.Interface:
		return SAny
	case *types.Struct:
		return r.structSort(tt, tt)
	case *types.Array:
		return ArrSort(SInt, r.SortOf(tt.Elem()))
	case *types.TypeParam:
		if c := coreOf(tt); c != nil {
			return r.SortOf(c)
		}
		s := Sort(quote("tp." + tt.Obj().Name()))
		if !r.uninterp[s] {
			r.uninterp[s] = true
			r.uninterpOrd = append(r.uninterpOrd, s)
		}
		return s
	case *types.Tuple:
		panic("tuple has no sort")
	}
	panic(fmt.Sprintf("unsupported type %T %s", t, t))
}

func (r *Registry) structSort(named types.Type, st *types.Struct) Sort {
	key := r.TypeKey(named)
	so := Sort(quote("S:" + key))
	if _, ok := r.structs[so]; ok {
		return so
	}
	info := &StructInfo{Sort: so, Ctor: quote("mk:" + key), Type: named}
	r.structs[so] = info // register before recursing (recursive types go through pointers)
	r.structOrder = append(r.structOrder, so)
	for i := 0; i < st.NumFields(); i++ {
		f := st.Field(i)
		acc := "f:" + key + "." + f.Name()
		if f.Name() == "_" {
			acc += fmt.Sprintf("#%d", i)
		}
		info.Fields = append(info.Fields, FieldInfo{
			Name:     f.Name(),
			Accessor: quote(acc),
			Sort:     r.SortOf(f.Type()),
			Type:     f.Type(),
			Embedded: f.Embedded(),
		})
	}
	return so
}

func (r *Registry) Struct(so Sort) *StructInfo { return r.structs[so] }

func (r *Registry) IsStructSort(so Sort) bool { _, ok := r.structs[so]; return ok }

// AnyCon returns the boxing constructor for dynamic type t.
func (r *Registry) AnyConFor(t types.Type) *AnyCon {
	t = types.Unalias(t)
	key := r.TypeKey(t)
	if c, ok := r.anyCons[key]; ok {
		return c
	}
	c := &AnyCon{Key: key, Ctor: quote("box:" + key), Accessor: quote("unbox:" + key), Payload: r.SortOf(t), Type: t, TagID: len(r.anyOrder) + 1, Opaque: hasTypeParam(t)}
	r.anyCons[key] = c
	r.anyOrder = append(r.anyOrder, key)
	r.typeByKey[key] = t
	return c
}

func (r *Registry) Box(t types.Type, v Term) Term {
	c := r.AnyConFor(t)
	if !sortCompat(v.Sort, c.Payload) {
		panic(fmt.Sprintf("Box %s: payload sort %s, got %s", c.Key, c.Payload, v.Sort))
	}
	return app(SAny, c.Ctor, v)
}

func (r *Registry) IsBoxed(t types.Type, a Term) Term {
	c := r.AnyConFor(t)
	// a literal boxing decides the test - unless one of the two types mentions a type parameter:
	// a value of type K boxed in an interface has whatever dynamic type K is instantiated with, so
	// `any(k).(string)` is neither true nor false in the generic body
	if strings.HasPrefix(a.S, "(") {
		if i := strings.IndexByte(a.S, ' '); i > 0 {
			head := a.S[1:i]
			if head == c.Ctor {
				return TTrue
			}
			for _, k := range r.anyOrder {
				if o := r.anyCons[k]; o.Ctor == head && !o.Opaque && !c.Opaque {
					return TFalse
				}
			}
		}
	}
	if a.S == "nil_any" {
		return TFalse
	}
	if c.Opaque {
		return Eq(a, app(SAny, c.Ctor, app(c.Payload, c.Accessor, a)))
	}
	return Term{"((_ is " + c.Ctor + ") " + a.S + ")", SBool}
}

func (r *Registry) Unbox(t types.Type, a Term) Term {
	c := r.AnyConFor(t)
	if strings.HasPrefix(a.S, "("+c.Ctor+" ") && strings.HasSuffix(a.S, ")") {
		return Term{a.S[len(c.Ctor)+2 : len(a.S)-1], c.Payload}
	}
	return app(c.Payload, c.Accessor, a)
}

// Zero returns the zero value term of a sort.
func (r *Registry) Zero(so Sort) Term {
	switch so {
	case SInt:
		return IntLit(0)
	case SRef:
		return Term{"0", SRef}
	case SBool:
		return TFalse
	case SString:
		return StrLit("")
	case SSlice:
		return NilSlice
	case SAny:
		return NilAny
	case SFloat:
		return Term{"float_zero", SFloat}
	case SFunc:
		return Term{"func_nil", SFunc}
	}
	if isAnySort(so) {
		return Term{"nil_any", so}
	}
	if si, ok := r.structs[so]; ok {
		if len(si.Fields) == 0 {
			return Term{si.Ctor, so}
		}
		args := make([]Term, len(si.Fields))
		for i, f := range si.Fields {
			args[i] = r.Zero(f.Sort)
		}
		return app(so, si.Ctor, args...)
	}
	if strings.HasPrefix(string(so), "(Array ") {
		_, e := so.arrayParts()
		return ConstArray(so, r.Zero(e))
	}
	if r.uninterp[so] {
		return Term{quote("zero." + strings.Trim(string(so), "|")), so}
	}
	panic("no zero for sort " + string(so))
}

// Preamble emits sort and datatype declarations.
func (r *Registry) Preamble() []string {
	var out []string
	out = append(out, "(declare-datatypes ((Fuel 0)) (((FZ) (FS (fpred Fuel)))))", "(define-sort Ref () Int)", "(declare-sort Float 0)", "(declare-sort Func 0)", "(declare-const float_zero Float)", "(declare-const func_nil Func)")
	for _, s := range r.uninterpOrd {
		out = append(out, fmt.Sprintf("(declare-sort %s 0)", s))
		out = append(out, fmt.Sprintf("(declare-const %s %s)", quote("zero."+strings.Trim(string(s), "|")), s))
	}
	// One mutually recursive block: Slice, Any, and all struct datatypes.
	var names, bodies []string
	names = append(names, "(Slice 0)")
	bodies = append(bodies, "((mk_slice (sl_arr Int) (sl_len Int) (sl_cap Int)))")
	names = append(names, "(Any 0)")
	var ab strings.Builder
	ab.WriteString("((nil_any) (box_other (other_tag Int) (other_id Int))")
	keys := append([]string(nil), r.anyOrder...)
	sort.Strings(keys)
	var opaque []*AnyCon
	for _, k := range keys {
		c := r.anyCons[k]
		if c.Opaque {
			opaque = append(opaque, c)
			continue
		}
		fmt.Fprintf(&ab, " (%s (%s %s))", c.Ctor, c.Accessor, c.Payload)
	}
	ab.WriteString(")")
	bodies = append(bodies, ab.String())
	for _, so := range r.structOrder {
		si := r.structs[so]
		names = append(names, fmt.Sprintf("(%s 0)", so))
		var sb strings.Builder
		sb.WriteString("((" + si.Ctor)
		for _, f := range si.Fields {
			fs := f.Sort
			if isAnySort(fs) {
				fs = SAny // aliases are defined after the datatypes; they denote Any
			}
			fmt.Fprintf(&sb, " (%s %s)", f.Accessor, fs)
		}
		sb.WriteString("))")
		bodies = append(bodies, sb.String())
	}
	out = append(out, "(declare-datatypes ("+strings.Join(names, " ")+") ("+strings.Join(bodies, " ")+"))")
	for _, a := range r.anyAliasOrd {
		out = append(out, fmt.Sprintf("(define-sort %s () Any)", a))
	}
	// boxing at a type that mentions a type parameter: injective, never the nil interface, tag unknown
	for _, c := range opaque {
		ps := c.Payload
		if isAnySort(ps) {
			ps = SAny
		}
		out = append(out, fmt.Sprintf("(declare-fun %s (%s) Any)", c.Ctor, ps), fmt.Sprintf("(declare-fun %s (Any) %s)", c.Accessor, ps),
			fmt.Sprintf("(assert (forall ((v %s)) (! (and (= (%s (%s v)) v) (not (= (%s v) nil_any))) :pattern ((%s v)))))", ps, c.Accessor, c.Ctor, c.Ctor, c.Ctor))
	}
	for _, n := range r.constArrOrder {
		out = append(out, r.constArrs[n])
	}
	return out
}

// FieldGet reads field i of struct value v.
func (r *Registry) FieldGet(v Term, i int) Term {
	si := r.structs[v.Sort]
	if si == nil {
		panic("FieldGet on non-struct sort " + string(v.Sort))
	}
	f := si.Fields[i]
	return app(f.Sort, f.Accessor, v)
}

// FieldSet returns v with field i replaced by x.
func (r *Registry) FieldSet(v Term, i int, x Term) Term {
	si := r.structs[v.Sort]
	args := make([]Term, len(si.Fields))
	for j, f := range si.Fields {
		if j == i {
			if !sortCompat(x.Sort, f.Sort) {
				panic(fmt.Sprintf("FieldSet %s.%s: sort %s, got %s", si.Sort, f.Name, f.Sort, x.Sort))
			}
			args[j] = x
		} else {
			args[j] = app(f.Sort, f.Accessor, v)
		}
	}
	return app(v.Sort, si.Ctor, args...)
}

func (r *Registry) FieldIndex(so Sort, name string) int {
	si := r.structs[so]
	if si == nil {
		return -1
	}
	for i, f := range si.Fields {
		if f.Name == name {
			return i
		}
	}
	return -1
}

// under is Underlying(), except that a type parameter with a core type (e.g.
// M ~map[K]V, S ~[]E) is treated as that core type.
func under(t types.Type) types.Type {
	t = types.Unalias(t)
	if tp, ok := t.(*types.TypeParam); ok {
		if c := coreOf(tp); c != nil {
			return c.Underlying()
		}
		return tp.Underlying()
	}
	return t.Underlying()
}
