package main

// Symbolic state: script (path condition), heap components, frames.

import (
	"fmt"
	"go/types"
	"strings"

	"golang.org/x/tools/go/ssa"
)

// Val is a symbolic value: Term, *LVal, *Closure, *FuncVal, Tuple, *RangeIter.
type Val interface{}

type Tuple []Val

type pendingCopy struct {
	lv   *LVal
	cell Term
}

type Closure struct {
	Fn       *ssa.Function
	Bindings []Val
	Src      []ssa.Value // the bound SSA values (to recognise a captured callback parameter)
}

type FuncVal struct{ Fn *ssa.Function }

const (
	rLocal = iota
	rObj
	rCell
	rElem
	rGlobal
)

type PathElem struct {
	Field int
	Idx   *Term // array index inside a by-value array
}

// LVal is a symbolic address.
type LVal struct {
	Root   int
	Alloc  *ssa.Alloc
	Frame  *Frame
	Sort   Sort // sort of the root storage
	Ref    Term
	Idx    Term
	Global *ssa.Global
	Path   []PathElem
	Type   types.Type // type of the addressed location
}

func (l *LVal) extend(pe PathElem, t types.Type) *LVal {
	n := *l
	n.Path = append(append([]PathElem(nil), l.Path...), pe)
	n.Type = t
	return &n
}

type RangeIter struct {
	IsMap   bool
	MapRef  Term
	KeyT    types.Type
	ElemT   types.Type
	Visited Term   // (Array K Bool): keys already produced
	Deleted Term   // (Array K Bool): keys deleted from the map since range started
	Dom0    Term   // domain of the map when range started
	ID      int
	Str     Term
}

type deferred struct {
	call *ssa.CallCommon
	args []Val
	fnv  Val
	pos  ssa.Instruction
}

type Frame struct {
	fn        *ssa.Function
	regs      map[ssa.Value]Val
	locals    map[*ssa.Alloc]Val
	prev      *ssa.BasicBlock
	openLoops map[int]bool
	defers    []deferred
	parent    *Frame
	retInstr  ssa.Instruction // call instruction in the parent frame (inline calls)
	retBlock  *ssa.BasicBlock
	retIdx    int
	depth     int
	iters     map[int]*RangeIter // loop header block index -> active map iterator
	loopEntry map[int]*Snapshot  // state at loop entry
	loopAssign map[int]*assignSet
	loopLocals map[int]map[*ssa.Alloc]Val // values of locals when the loop was entered
	decAt     map[int]Term
	inlineTag string
}

func (f *Frame) fork(memo map[*Frame]*Frame) *Frame {
	if f == nil {
		return nil
	}
	if n, ok := memo[f]; ok {
		return n
	}
	n := &Frame{fn: f.fn, prev: f.prev, retInstr: f.retInstr, retBlock: f.retBlock, retIdx: f.retIdx, depth: f.depth, inlineTag: f.inlineTag}
	memo[f] = n
	n.regs = make(map[ssa.Value]Val, len(f.regs))
	for k, v := range f.regs {
		n.regs[k] = v
	}
	n.locals = make(map[*ssa.Alloc]Val, len(f.locals))
	for k, v := range f.locals {
		n.locals[k] = v
	}
	n.openLoops = make(map[int]bool, len(f.openLoops))
	for k, v := range f.openLoops {
		n.openLoops[k] = v
	}
	n.iters = make(map[int]*RangeIter, len(f.iters))
	for k, v := range f.iters {
		c := *v
		n.iters[k] = &c
	}
	n.loopEntry = make(map[int]*Snapshot, len(f.loopEntry))
	for k, v := range f.loopEntry {
		n.loopEntry[k] = v
	}
	n.loopLocals = make(map[int]map[*ssa.Alloc]Val, len(f.loopLocals))
	for k, v := range f.loopLocals {
		n.loopLocals[k] = v
	}
	n.loopAssign = make(map[int]*assignSet, len(f.loopAssign))
	for k, v := range f.loopAssign {
		n.loopAssign[k] = v
	}
	n.decAt = make(map[int]Term, len(f.decAt))
	for k, v := range f.decAt {
		n.decAt[k] = v
	}
	n.defers = append([]deferred(nil), f.defers...)
	n.parent = f.parent.fork(memo)
	return n
}

// Snapshot is an immutable view of the heap used for old() and frames.
type Snapshot struct {
	heap  map[string]Term
	epoch int
	alloc Term
}

type State struct {
	run    *FuncRun
	script *Script
	heap   map[string]Term
	epoch  int
	alloc  Term
	frame  *Frame
	pathID int
	steps  int
	// copy-in/copy-out records for interior pointers materialised as cells
	trail []string // human-readable branch trail
	pendingCopies []pendingCopy // interior pointers materialised as cells, to be written back after the next call
	frameBase *Snapshot // after a callback call: the heap the function's own frame is measured from
	// private: references allocated on this path that have not escaped (never
	// stored into non-private memory, never passed to a call). No callee can
	// reach them, so their contents survive calls that forget the heap.
	private  map[string]bool
	alias    map[string][]string // named constant -> private refs it mentions
	contains map[string][]string // private container -> private refs stored in it
	open     map[string]bool     // private container that may hold references to non-private objects
}

func (st *State) Fork() *State {
	n := &State{run: st.run, script: st.script.Fork(), epoch: st.epoch, alloc: st.alloc, steps: st.steps}
	n.heap = make(map[string]Term, len(st.heap))
	for k, v := range st.heap {
		n.heap[k] = v
	}
	memo := map[*Frame]*Frame{}
	n.frame = st.frame.fork(memo)
	// LVals pointing at frames must be re-targeted lazily: they keep Alloc
	// identity and are resolved through the frame chain by function identity.
	n.trail = append([]string(nil), st.trail...)
	n.frameBase = st.frameBase
	n.pendingCopies = append([]pendingCopy(nil), st.pendingCopies...)
	n.private = make(map[string]bool, len(st.private))
	for k := range st.private {
		n.private[k] = true
	}
	n.alias = make(map[string][]string, len(st.alias))
	for k, v := range st.alias {
		n.alias[k] = v
	}
	n.contains = make(map[string][]string, len(st.contains))
	for k, v := range st.contains {
		n.contains[k] = v
	}
	n.open = make(map[string]bool, len(st.open))
	for k := range st.open {
		n.open[k] = true
	}
	return n
}

// refsIn returns the private references mentioned (directly or through named
// constants) by a term.
func (st *State) refsIn(t string) []string {
	if len(st.private) == 0 && len(st.alias) == 0 {
		return nil
	}
	var out []string
	seen := map[string]bool{}
	i := 0
	for i < len(t) {
		c := t[i]
		if c == '(' || c == ')' || c == ' ' {
			i++
			continue
		}
		j := i
		for j < len(t) && t[j] != '(' && t[j] != ')' && t[j] != ' ' {
			j++
		}
		tok := t[i:j]
		i = j
		if st.private[tok] && !seen[tok] {
			seen[tok] = true
			out = append(out, tok)
		}
		for _, r := range st.alias[tok] {
			if st.private[r] && !seen[r] {
				seen[r] = true
				out = append(out, r)
			}
		}
	}
	return out
}

// mentionsForeign: may the stored value carry a reference to an object that is
// not private to this path? (conservative: any symbol that is not a private
// reference, a literal or a constructor counts)
func (st *State) mentionsForeign(t string) bool {
	toks := sexprTokens(t)
	pos := 0
	var walk func() bool // true: foreign
	atomForeign := func(tok string) bool {
		switch {
		case st.private[tok]:
			return false
		case tok == "true" || tok == "false" || tok == "nil_any":
			return false
		case tok[0] >= '0' && tok[0] <= '9', tok[0] == '"':
			return false
		}
		if rs := st.alias[tok]; len(rs) > 0 {
			for _, r := range rs {
				if !st.private[r] {
					return true
				}
			}
			return false
		}
		return true
	}
	skip := func() {
		depth := 0
		for pos < len(toks) {
			tk := toks[pos]
			pos++
			if tk == "(" {
				depth++
			} else if tk == ")" {
				depth--
			}
			if depth == 0 {
				return
			}
		}
	}
	walk = func() bool {
		if pos >= len(toks) {
			return false
		}
		tk := toks[pos]
		if tk != "(" {
			pos++
			return atomForeign(tk)
		}
		pos++ // (
		if pos >= len(toks) {
			return true
		}
		head := toks[pos]
		pos++
		foreign := false
		switch {
		case head == "mk_slice":
			// only the array component is a reference; length and capacity are numbers
			if walk() {
				foreign = true
			}
			skip()
			skip()
		case strings.HasPrefix(head, "box_") || strings.HasPrefix(head, "mk_") || head == "ite":
			for pos < len(toks) && toks[pos] != ")" {
				if head == "ite" && !foreign && false {
					break
				}
				if walk() {
					foreign = true
				}
			}
		case head == "-" || head == "+" || head == "*" || head == "str.++" || head == "str.len":
			for pos < len(toks) && toks[pos] != ")" {
				skip()
			}
		default:
			foreign = true
			for pos < len(toks) && toks[pos] != ")" {
				skip()
			}
		}
		if pos < len(toks) && toks[pos] == ")" {
			pos++
		}
		return foreign
	}
	for pos < len(toks) {
		if walk() {
			return true
		}
	}
	return false
}

func sexprTokens(t string) []string {
	var out []string
	i := 0
	for i < len(t) {
		c := t[i]
		switch {
		case c == ' ':
			i++
		case c == '(' || c == ')':
			out = append(out, string(c))
			i++
		case c == '"':
			j := i + 1
			for j < len(t) && t[j] != '"' {
				j++
			}
			if j < len(t) {
				j++
			}
			out = append(out, t[i:j])
			i = j
		default:
			j := i
			for j < len(t) && t[j] != '(' && t[j] != ')' && t[j] != ' ' {
				j++
			}
			out = append(out, t[i:j])
			i = j
		}
	}
	return out
}

// reachPrivate: if every reference mentioned by t is private and the objects
// reachable from them hold no reference to non-private objects, the set of
// those objects; otherwise ok is false.
func (st *State) reachPrivate(t string) (refs []string, ok bool) {
	if st.mentionsForeign(t) {
		return nil, false
	}
	seen := map[string]bool{}
	var visit func(r string) bool
	visit = func(r string) bool {
		if seen[r] {
			return true
		}
		seen[r] = true
		if !st.private[r] || st.open[r] {
			return false
		}
		refs = append(refs, r)
		for _, c := range st.contains[r] {
			if !visit(c) {
				return false
			}
		}
		return true
	}
	start := st.refsIn(t)
	if len(start) == 0 {
		return nil, false
	}
	for _, r := range start {
		if !visit(r) {
			return nil, false
		}
	}
	return refs, true
}

// escape marks every private reference mentioned by t (and, transitively,
// everything stored in those objects) as reachable by other code.
func (st *State) escape(t string) {
	for _, r := range st.refsIn(t) {
		st.escapeRef(r)
	}
}

func (st *State) escapeRef(r string) {
	if !st.private[r] {
		return
	}
	delete(st.private, r)
	for _, c := range st.contains[r] {
		st.escapeRef(c)
	}
}

// storedInto records that value v was stored into the object with root
// reference root: into a private container it stays private, otherwise it escapes.
func (st *State) storedInto(root string, v string) {
	refs := st.refsIn(v)
	if st.private[root] && st.mentionsForeign(v) {
		if st.open == nil {
			st.open = map[string]bool{}
		}
		st.open[root] = true
	}
	if len(refs) == 0 {
		return
	}
	owners := st.refsIn(root)
	if len(owners) == 1 && st.private[owners[0]] && root == owners[0] {
		if st.contains == nil {
			st.contains = map[string][]string{}
		}
		st.contains[owners[0]] = append(append([]string(nil), st.contains[owners[0]]...), refs...)
		return
	}
	for _, r := range refs {
		st.escapeRef(r)
	}
}

func (st *State) Snap() *Snapshot {
	h := make(map[string]Term, len(st.heap))
	for k, v := range st.heap {
		h[k] = v
	}
	return &Snapshot{heap: h, epoch: st.epoch, alloc: st.alloc}
}

// ---- heap components ----

func compStruct(so Sort) string       { return "H:" + string(so) }
func compCell(so Sort) string         { return "cell:" + string(so) }
func compArr(so Sort) string          { return "Arr:" + string(so) }
func compMapDom(k, v Sort) string     { return "MapDom:" + string(k) + ":" + string(v) }
func compMapVal(k, v Sort) string     { return "MapVal:" + string(k) + ":" + string(v) }
func compMapCard(k, v Sort) string    { return "MapCard:" + string(k) + ":" + string(v) }
func compGlobal(g *ssa.Global) string { return "G:" + shortPkg(g.Pkg.Pkg.Path(), g.Pkg.Pkg.Name()) + "." + g.Name() }

// compSort derives the SMT sort of a heap component from its name; component
// sorts are recorded on first use.
type epochInfo struct {
	privRefs []string   // references private to the path when the epoch began: contents preserved
	privFrom *Snapshot  // the heap they are preserved from
	parent   *Snapshot  // nil: nothing is known about the heap of this epoch
	as       *assignSet // locations that may differ from the parent (nil: none)
	alloc    Term
	preAlloc Term
}

// compInit creates the initial version of a component for an epoch. Epoch 0
// and epochs without a parent are unconstrained (apart from the closed-heap
// facts); an epoch created by a call with a frame agrees with its parent on
// every pre-existing location outside the callee's assigns clause.
func (run *FuncRun) compInit(sc *Script, name string, so Sort, epoch int) Term {
	run.compSorts[name] = so
	if strings.HasPrefix(name, "G:") && run.eng.globalIsConst(name) {
		epoch = 0 // init-only package variable: one value for the whole run
	}
	cname := quote(fmt.Sprintf("%s@%d", name, epoch))
	t := Term{cname, so}
	decl := "(declare-const " + cname + " " + string(so) + ")"
	if f := nilMapFact(name, t); f != "" {
		decl += "\n" + f
	}
	info := run.epochInfo[epoch]
	bound := Term{"alloc@0", SInt}
	if info != nil {
		bound = info.alloc
	}
	for _, f := range run.heapFacts(name, t, bound) {
		decl += "\n" + f
	}
	if strings.HasPrefix(name, "MapCard:") {
		domName := "MapDom:" + strings.TrimPrefix(name, "MapCard:")
		if ds, ok := run.compSorts[domName]; ok {
			dom := run.compInit(sc, domName, ds, epoch)
			for _, f := range run.mapVersionFacts(name, t, dom) {
				decl += "\n" + f
			}
		}
	}
	if info != nil && info.parent == nil && info.privFrom != nil && len(info.privRefs) > 0 && sc != nil && !strings.HasPrefix(name, "G:") {
		if sc.declared[cname] {
			return t
		}
		prev := info.privFrom.H(run, sc, name, so)
		for _, r := range info.privRefs {
			decl += fmt.Sprintf("\n(assert (= (select %s %s) (select %s %s)))", cname, r, prev.S, r)
		}
	}
	if info == nil || info.parent == nil {
		if sc != nil && epoch != 0 {
			sc.Declare(cname, decl)
		} else {
			run.declare(cname, decl)
		}
		return t
	}
	if sc == nil {
		fail("internal: component %s of epoch %d needed without a script", name, epoch)
	}
	if sc.declared[cname] {
		return t
	}
	prev := info.parent.H(run, sc, name, so)
	for _, f := range run.frameAxioms(name, t, prev, info.preAlloc, info.as) {
		decl += "\n" + f
	}
	sc.Declare(cname, decl)
	return t
}

func (st *State) H(name string, so Sort) Term {
	if t, ok := st.heap[name]; ok {
		return t
	}
	t := st.run.compInit(st.script, name, so, st.epoch)
	st.heap[name] = t
	return t
}

func (sn *Snapshot) H(run *FuncRun, sc *Script, name string, so Sort) Term {
	if t, ok := sn.heap[name]; ok {
		return t
	}
	return run.compInit(sc, name, so, sn.epoch)
}

// SetH installs a new version of a component, naming it to keep terms small.
func (st *State) SetH(name string, val Term) {
	st.run.compSorts[name] = val.Sort
	if len(val.S) > 60 {
		val = st.Name("h", val)
	}
	st.heap[name] = val
}

// Name introduces a named constant equal to t.
func (st *State) Name(prefix string, t Term) Term {
	c := st.run.freshName(prefix)
	if refs := st.refsIn(t.S); len(refs) > 0 {
		if st.alias == nil {
			st.alias = map[string][]string{}
		}
		st.alias[c] = refs
	}
	st.script.Add("(declare-const " + c + " " + string(t.Sort) + ")")
	st.script.Add("(assert (= " + c + " " + t.S + "))")
	return Term{c, t.Sort}
}

// Fresh introduces an unconstrained constant.
func (st *State) Fresh(prefix string, so Sort) Term {
	c := st.run.freshName(prefix)
	st.script.Add("(declare-const " + c + " " + string(so) + ")")
	return Term{c, so}
}

func (st *State) Assume(t Term) { st.script.Assert(t) }

// HavocAll forgets every heap component (unknown call).
func (st *State) HavocAll(reason string) {
	st.script.Comment("havoc all: " + reason)
	st.newEpoch(nil, nil)
}

// newEpoch starts a new heap epoch: every component is re-derived lazily from
// the parent snapshot under the frame given by as (parent nil: unconstrained).
func (st *State) newEpoch(parent *Snapshot, as *assignSet) {
	st.newEpochKeeping(parent, as, nil)
}

// newEpochKeeping is newEpoch, but components for which keep returns true
// retain their current version (they are known not to be touched).
func (st *State) newEpochKeeping(parent *Snapshot, as *assignSet, keep func(string) bool) {
	run := st.run
	e := run.nextEpoch()
	name := fmt.Sprintf("alloc@%d", e)
	st.script.Declare(name, "(declare-const "+name+" Int)")
	old := st.alloc
	info := &epochInfo{parent: parent, as: as, alloc: Term{name, SInt}, preAlloc: old}
	if parent == nil && len(st.private) > 0 {
		// an unknown callee cannot reach objects that never left this function
		info.privRefs = sortedKeys(st.private)
		info.privFrom = st.Snap()
	}
	run.epochInfo[e] = info
	for k := range st.heap {
		if strings.HasPrefix(k, "G:") && run.eng.globalIsConst(k) {
			continue // init-only package variables keep their value
		}
		if keep != nil && keep(k) {
			continue
		}
		delete(st.heap, k)
	}
	st.epoch = e
	st.alloc = info.alloc
	st.Assume(Ge(st.alloc, old))
}

// HavocAlloc forgets how many objects exist (monotonically).
func (st *State) HavocAlloc() {
	old := st.alloc
	st.alloc = st.Fresh("alloc", SInt)
	st.Assume(Ge(st.alloc, old))
}

// HavocComp forgets one component.
func (st *State) HavocComp(name string) Term {
	so, ok := st.run.compSorts[name]
	if !ok {
		panic("havoc of unknown component " + name)
	}
	t := st.Fresh("hv", so)
	if f := nilMapFact(name, t); f != "" {
		st.script.Add(f)
	}
	for _, f := range st.run.heapFacts(name, t, st.alloc) {
		st.script.Add(f)
	}
	st.heap[name] = t
	return t
}

// heapFacts: the closed-heap invariant for one version of a component: every
// reference stored in it denotes an object allocated before `bound`, and every
// stored slice header is well formed.
func (run *FuncRun) heapFacts(comp string, t Term, bound Term) []string {
	reg := run.eng.reg
	var out []string
	// facts about a value expression e of sort so
	var valueFacts func(e string, so Sort, depth int) []string
	valueFacts = func(e string, so Sort, depth int) []string {
		switch so {
		case SRef:
			return []string{fmt.Sprintf("(<= 0 %s)", e), fmt.Sprintf("(< %s %s)", e, bound.S)}
		case SSlice:
			return []string{fmt.Sprintf("(<= 0 (sl_arr %s))", e), fmt.Sprintf("(< (sl_arr %s) %s)", e, bound.S),
				fmt.Sprintf("(<= 0 (sl_len %s))", e), fmt.Sprintf("(<= (sl_len %s) (sl_cap %s))", e, e),
				fmt.Sprintf("(=> (= (sl_arr %s) 0) (= (sl_cap %s) 0))", e, e)}
		}
		if si := reg.Struct(so); si != nil && depth < 2 {
			var fs []string
			for _, f := range si.Fields {
				fs = append(fs, valueFacts(fmt.Sprintf("(%s %s)", f.Accessor, e), f.Sort, depth+1)...)
			}
			return fs
		}
		return nil
	}
	emit := func(binders, pattern string, facts []string) {
		if len(facts) == 0 {
			return
		}
		// only allocated objects are constrained: the unallocated part of a
		// component is where callees' new objects will appear
		out = append(out, fmt.Sprintf("(assert (forall (%s) (! (=> (< r %s) (and %s)) :pattern (%s))))", binders, bound.S, strings.Join(facts, " "), pattern))
	}
	switch {
	case strings.HasPrefix(comp, "H:"), strings.HasPrefix(comp, "cell:"):
		_, es := t.Sort.arrayParts()
		e := fmt.Sprintf("(select %s r)", t.S)
		emit("(r Int)", e, valueFacts(e, es, 0))
	case strings.HasPrefix(comp, "Arr:"):
		_, inner := t.Sort.arrayParts()
		_, es := inner.arrayParts()
		e := fmt.Sprintf("(select (select %s r) i)", t.S)
		emit("(r Int) (i Int)", e, valueFacts(e, es, 0))
	case strings.HasPrefix(comp, "MapVal:"):
		_, inner := t.Sort.arrayParts()
		ks, vs := inner.arrayParts()
		e := fmt.Sprintf("(select (select %s r) k)", t.S)
		emit(fmt.Sprintf("(r Int) (k %s)", ks), e, valueFacts(e, vs, 0))
	case strings.HasPrefix(comp, "G:"):
		fs := valueFacts(t.S, t.Sort, 0)
		if len(fs) > 0 {
			out = append(out, "(assert (and "+strings.Join(fs, " ")+"))")
		}
	}
	return out
}

// mapVersionFacts: consequences of card = |dom| for every map object of a
// (MapDom, MapCard) version pair created together (initial or havocked).
func (run *FuncRun) mapVersionFacts(cardComp string, card Term, dom Term) []string {
	_, inner := dom.Sort.arrayParts()
	k, _ := inner.arrayParts()
	wit := quote("witness:" + string(k))
	run.declare(wit, "(declare-fun "+wit+" ("+string(ArrSort(k, SBool))+") "+string(k)+")")
	return []string{
		fmt.Sprintf("(assert (forall ((r Int)) (! (>= (select %s r) 0) :pattern ((select %s r)))))", card.S, card.S),
		fmt.Sprintf("(assert (forall ((r Int) (k %s)) (! (=> (select (select %s r) k) (> (select %s r) 0)) :pattern ((select (select %s r) k)))))", k, dom.S, card.S, dom.S),
		fmt.Sprintf("(assert (forall ((r Int)) (! (=> (> (select %s r) 0) (select (select %s r) (%s (select %s r)))) :pattern ((select %s r)))))", card.S, dom.S, wit, dom.S, card.S),
	}
}

// nilMapFact: the nil map (reference 0) is empty in every heap.
func nilMapFact(comp string, t Term) string {
	switch {
	case strings.HasPrefix(comp, "MapDom:"):
		_, inner := t.Sort.arrayParts()
		k, _ := inner.arrayParts()
		return fmt.Sprintf("(assert (forall ((k %s)) (! (not (select (select %s 0) k)) :pattern ((select (select %s 0) k)))))", k, t.S, t.S)
	case strings.HasPrefix(comp, "MapCard:"):
		return fmt.Sprintf("(assert (= (select %s 0) 0))", t.S)
	}
	return ""
}

// NewRef allocates a fresh reference.
func (st *State) NewRef() Term {
	r := st.Name("r", st.alloc)
	st.alloc = Add(r, IntLit(1))
	if st.private == nil {
		st.private = map[string]bool{}
	}
	st.private[r.S] = true
	return Term{r.S, SRef}
}

// ---- map helpers ----

type MapComps struct {
	K, V             Sort
	Dom, Val, Card   string
	DomS, ValS, CardS Sort
}

func (run *FuncRun) mapComps(mt *types.Map) MapComps {
	k := run.eng.reg.SortOf(mt.Key())
	v := run.eng.reg.SortOf(mt.Elem())
	run.compSorts[compMapDom(k, v)] = ArrSort(SInt, ArrSort(k, SBool))
	run.compSorts[compMapVal(k, v)] = ArrSort(SInt, ArrSort(k, v))
	run.compSorts[compMapCard(k, v)] = ArrSort(SInt, SInt)
	return MapComps{K: k, V: v,
		Dom: compMapDom(k, v), Val: compMapVal(k, v), Card: compMapCard(k, v),
		DomS: ArrSort(SInt, ArrSort(k, SBool)), ValS: ArrSort(SInt, ArrSort(k, v)), CardS: ArrSort(SInt, SInt)}
}

type heapReader interface {
	H(name string, so Sort) Term
}

type snapReader struct {
	sn  *Snapshot
	run *FuncRun
	sc  *Script
}

func (s snapReader) H(name string, so Sort) Term { return s.sn.H(s.run, s.sc, name, so) }

func mapDom(h heapReader, mc MapComps, ref Term) Term  { return Select(h.H(mc.Dom, mc.DomS), ref) }
func mapVal(h heapReader, mc MapComps, ref Term) Term  { return Select(h.H(mc.Val, mc.ValS), ref) }
func mapCard(h heapReader, mc MapComps, ref Term) Term { return Select(h.H(mc.Card, mc.CardS), ref) }
