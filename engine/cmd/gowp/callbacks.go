package main

// Higher-order contracts.
//
//   func H#f            contract of H's callback parameter f (also "H$1#f" for a
//     callback             closure of H that captured f):
//     preserves items    a call of f may write every object that existed when the
//     requires ...       function under verification was entered, except the
//                        preserved items; objects the function allocated since
//                        then are out of f's reach. The requires clauses are what
//                        H guarantees about the arguments it passes.
//   func H
//     iterates f         besides its assigns clause, H's only effect is calling f
//                        (any number of times). Proved for H's body by measuring
//                        H's own frame between callback calls; used at a call
//                        site H(..., c) by treating the iteration of c as a loop
//                        whose invariant and assigns the caller states under
//                        "loop H.f".

import (
	"fmt"
	"go/types"

	"golang.org/x/tools/go/ssa"
)

type virtLoop struct {
	entry  *Snapshot
	locals map[*ssa.Alloc]Val
}

// callbackKeyFor finds the callback contract of a function-typed parameter
// reached as a parameter, through its cell, or through a captured variable.
func (eng *Engine) callbackContractOfValue(v ssa.Value) *FuncContract {
	try := func(keys ...string) *FuncContract {
		for _, k := range keys {
			if fc, ok := eng.contracts[k]; ok {
				return fc
			}
		}
		return nil
	}
	switch x := v.(type) {
	case *ssa.UnOp:
		return eng.callbackContractOfValue(x.X)
	case *ssa.Alloc:
		if x.Parent() != nil {
			return try(eng.originKey(x.Parent()) + "#" + x.Comment)
		}
	case *ssa.Parameter:
		return try(eng.originKey(x.Parent()) + "#" + x.Name())
	case *ssa.FreeVar:
		fn := x.Parent()
		keys := []string{eng.originKey(fn) + "#" + x.Name()}
		for p := fn.Parent(); p != nil; p = p.Parent() {
			keys = append(keys, eng.originKey(p)+"#"+x.Name())
		}
		return try(keys...)
	}
	return nil
}

// callbackHavoc applies the effect of one or more calls of a callback: the
// function's own frame is checked up to here, then every object older than the
// function's entry may change except the preserved ones.
func (run *FuncRun) callbackHavoc(st *State, cb *FuncContract, env *CEnv, where string) {
	keep := newAssignSet()
	if len(cb.Preserves) > 0 {
		keep = env.assignSetOfItems(cb.Preserves, cb.Where)
		for _, f := range env.takeFacts() {
			st.Assume(f)
		}
	}
	as := newAssignSet()
	mark := run.entry.alloc
	as.allBelow = &mark
	as.keep = keep
	st.script.Comment("callback " + cb.Key + " @ " + where + ": objects older than the function's entry may change")
	run.callbackEpoch(st, as)
}

// ownFrameCheck: the function's own writes up to this point stay within its assigns clause.
func (run *FuncRun) ownFrameCheck(st *State) {
	if run.contract == nil || !run.contract.HasAssigns {
		return
	}
	pre := run.contractEnv(st, run.entry, nil).oldEnv()
	pre.frame = nil
	as := pre.assignSetOf(run.contract)
	for _, f := range pre.takeFacts() {
		st.Assume(f)
	}
	if as.all {
		return
	}
	base := run.entry
	if st.frameBase != nil {
		base = st.frameBase
	}
	run.checkFrameAgainst(st, base, as, "frame", run.contract.Where)
}

// callbackEpoch: check the function's own frame so far, let the callback effect
// (as.allBelow / as.keep only) happen, and measure the own frame from there on.
func (run *FuncRun) callbackEpoch(st *State, as *assignSet) {
	run.ownFrameCheck(st)
	cb := newAssignSet()
	cb.allBelow, cb.keep = as.allBelow, as.keep
	st.newEpoch(st.Snap(), cb)
	st.frameBase = &Snapshot{heap: map[string]Term{}, epoch: st.epoch, alloc: run.entry.alloc}
}

// callCallback: a call of a callback parameter that has a "callback" contract.
func (run *FuncRun) callCallback(st *State, cb *FuncContract, sig *types.Signature, args []Val, in ssa.Instruction) Val {
	env := &CEnv{run: run, st: st, cur: st, old: st.Snap(), vars: map[string]CVal{}, pkg: cb.Pkg, frame: st.frame, tsubst: run.tsubst}
	for k, v := range run.entryVars {
		env.vars[k] = v
	}
	names, ptypes := run.eng.paramNames(cb, sig, nil, nil)
	for i, a := range args {
		t, ok := a.(Term)
		if !ok {
			t = run.valToTerm(st, a)
		}
		env.vars[names[i]] = CVal{T: t, Type: ptypes[i]}
		env.shadowName(names[i])
		st.escape(t.S)
	}
	where := run.posOf(in)
	for i, cl := range cb.Requires {
		goals := env.proveGoals(cl.Expr)
		lab := cl.Label
		if lab == "" {
			lab = fmt.Sprint(i)
		}
		run.addGoals(st, "pre", shortKey(cb.Key)+"."+lab, goals, "guarantee to the callback "+cb.Key+": "+cl.Src, where)
		t := env.evalBool(cl.Expr)
		for _, f := range env.takeFacts() {
			st.Assume(f)
		}
		st.Assume(t)
	}
	run.callbackHavoc(st, cb, env, where)
	return run.freshResults(st, sig.Results(), "cb")
}

// applyIterates handles the frame of a call H(..., c) where H "iterates" the
// parameter (or captured variable) that c is bound to. It returns false when
// the situation is not covered (the caller then forgets the heap).
func (run *FuncRun) applyIterates(st *State, fc *FuncContract, env *CEnv, names []string, args []Val, in ssa.Instruction, callee *ssa.Function, bindings []Val, src []ssa.Value) bool {
	where := run.posOf(in)
	asH := env.assignSetOf(fc)
	for _, f := range env.takeFacts() {
		st.Assume(f)
	}
	if asH.all {
		return false
	}
	ownHavoc := func(s *State) { run.havocAssignSet(s, s.Snap(), asH) }
	// what is the callback bound to?
	var cbVal Val
	var cbSrc ssa.Value
	for i, n := range names {
		if n == fc.Iterates {
			cbVal = args[i]
			if c, ok := in.(*ssa.Call); ok && !c.Call.IsInvoke() && i < len(c.Call.Args) {
				cbSrc = c.Call.Args[i]
			}
		}
	}
	if cbVal == nil && callee != nil {
		for i, fv := range callee.FreeVars {
			if fv.Name() == fc.Iterates && i < len(src) {
				cbSrc = src[i]
			}
		}
	}
	// (a) the callback is this function's own callback parameter, passed through
	if cbSrc != nil {
		if cb := run.eng.callbackContractOfValue(cbSrc); cb != nil && cb.Callback {
			if _, isClosure := cbVal.(*Closure); !isClosure {
				ownHavoc(st)
				cenv := run.contractEnv(st, run.entry, st.frame)
				run.callbackHavoc(st, cb, cenv, where)
				ownHavoc(st)
				return true
			}
		}
	}
	// (b) a closure of this function with a contract, iterated under a loop spec of the caller
	cl, ok := cbVal.(*Closure)
	if !ok || run.contract == nil {
		return false
	}
	cfc := run.eng.contractFor(cl.Fn)
	lname := shortKey(fc.Key) + "." + fc.Iterates
	spec := run.contract.Loops[lname]
	if cfc == nil || spec == nil {
		// an iteration (H calls the closure once per element) is a loop of this function: without
		// a loop contract for it nothing can be proved about what follows, exactly as for a
		// syntactic loop without an invariant - the function is DEGRADED, not alarmed
		fail("%s: the closure iterated by %s (%s) has no loop contract %q", run.key, fc.Key, where, "loop "+lname)
	}
	vl := &virtLoop{entry: st.Snap(), locals: map[*ssa.Alloc]Val{}}
	for f := st.frame; f != nil; f = f.parent {
		for a, v := range f.locals {
			vl.locals[a] = v
		}
	}
	mkEnv := func(s *State) *CEnv {
		e := run.contractEnv(s, run.entry, s.frame)
		e.virt = vl
		return e
	}
	lenv := mkEnv(st)
	for _, c := range spec.Invariants {
		run.addGoals(st, "inv."+lname+".entry", c.Label, lenv.proveGoals(c.Expr), c.Src, c.Where)
	}
	asL := lenv.assignSetOfItems(spec.Assigns, where)
	for _, f := range lenv.takeFacts() {
		st.Assume(f)
	}
	if asL.all {
		st.HavocAll("callback iteration " + lname + " assigns everything")
	} else if asL.allBelow != nil {
		run.callbackEpoch(st, asL)
		st.newEpoch(st.Snap(), withoutCallback(asL))
	} else {
		st.newEpochKeeping(vl.entry, asL, func(name string) bool {
			_, touched := asL.comps[name]
			return !touched
		})
	}
	ownHavoc(st)
	assumeInv := func(s *State) {
		e := mkEnv(s)
		for _, c := range spec.Invariants {
			s.script.Comment("callback-iteration invariant " + c.Src)
			t := e.evalBool(c.Expr)
			for _, f := range e.takeFacts() {
				s.Assume(f)
			}
			s.Assume(t)
		}
	}
	assumeInv(st)
	run.addObligation(st, "cover", "inv."+lname, TFalse, "callback-iteration invariant satisfiable", where).ExpectSat = true
	// one iteration: H may write its own frame, then calls c with arguments it guarantees
	t := st.Fork()
	t.trail = append(t.trail, "cb:"+lname)
	ownHavoc(t)
	mid := t.Snap()
	csig := cl.Fn.Signature
	var cargs []Val
	for i := 0; i < csig.Params().Len(); i++ {
		a := t.Fresh("cbarg", run.eng.reg.SortOf(csig.Params().At(i).Type()))
		t.assumeWellTyped(a, csig.Params().At(i).Type())
		cargs = append(cargs, a)
	}
	if g := run.eng.contracts[fc.Key+"#"+fc.Iterates]; g != nil {
		genv := &CEnv{run: run, st: t, cur: t, old: mid, vars: map[string]CVal{}, pkg: g.Pkg}
		gsig := csig
		if callee != nil {
			ps := callee.Signature.Params()
			for i := 0; i < ps.Len(); i++ {
				if ps.At(i).Name() == fc.Iterates {
					if s, ok := ps.At(i).Type().Underlying().(*types.Signature); ok {
						gsig = s
					}
				}
			}
		}
		gn, gt := run.eng.paramNames(g, gsig, nil, nil)
		for i := range cargs {
			genv.vars[gn[i]] = CVal{T: cargs[i].(Term), Type: gt[i]}
		}
		for _, c := range g.Requires {
			tt := genv.evalBool(c.Expr)
			for _, f := range genv.takeFacts() {
				t.Assume(f)
			}
			t.Assume(tt)
		}
	}
	// the closure must respect what H's callback contract promises H's body
	if g := run.eng.contracts[fc.Key+"#"+fc.Iterates]; g != nil && len(g.Preserves) > 0 {
		keep := env.assignSetOfItems(g.Preserves, g.Where)
		for _, f := range env.takeFacts() {
			t.Assume(f)
		}
		for _, name := range sortedKeys(keep.wholeComps) {
			if _, touched := asL.comps[name]; touched {
				run.addObligation(t, "callback", lname+".preserves."+name, TFalse, "the callback's frame (loop "+lname+" assigns) contains objects of "+name+", which "+g.Key+" promises are preserved", where)
			}
		}
		for _, name := range sortedKeys(keep.whole) {
			if asL.wholeComps[name] {
				run.addObligation(t, "callback", lname+".preserves."+name, TFalse, "the callback's frame covers every object of "+name+", some of which "+g.Key+" promises are preserved", where)
				continue
			}
			for _, w := range keep.whole[name] {
				for _, a := range asL.whole[name] {
					run.addObligation(t, "callback", lname+".preserves."+name, Neq(a, w), "the callback does not write an object "+g.Key+" promises is preserved", where)
				}
				for _, refText := range sortedKeys(asL.fields[name]) {
					run.addObligation(t, "callback", lname+".preserves."+name, Neq(asL.frefs[name][refText], w), "the callback does not write an object "+g.Key+" promises is preserved", where)
				}
			}
		}
		if asL.all {
			run.addObligation(t, "callback", lname+".preserves", TFalse, "the callback's frame is everything, but "+g.Key+" promises preserved objects", where)
		}
	}
	run.usedContracts[cfc.Key] = true
	run.pendingBindings = cl.Bindings
	run.pendingSrc = cl.Src
	run.applyContract(t, cfc, csig, nil, cargs, in, cl.Fn)
	tenv := mkEnv(t)
	for _, c := range spec.Invariants {
		run.addGoals(t, "inv."+lname+".preserved", c.Label, tenv.proveGoals(c.Expr), c.Src, c.Where)
	}
	if !asL.all {
		// objects that existed when the iteration began and are outside the loop's assigns
		// clause are not written by the callback (objects allocated during the iteration are free)
		base := &Snapshot{heap: mid.heap, epoch: mid.epoch, alloc: vl.entry.alloc}
		run.checkFrameAgainst(t, base, asL, "loopframe."+lname, where)
	}
	// after the iteration H may still write its own frame
	ownHavoc(st)
	return true
}

func withoutCallback(as *assignSet) *assignSet {
	n := *as
	n.allBelow, n.keep = nil, nil
	return &n
}
