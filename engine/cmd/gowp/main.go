package main

import (
	"flag"
	"fmt"
	"os"
	"sort"
	"strings"

	"golang.org/x/tools/go/ssa"
)

func main() {
	if len(os.Args) < 2 {
		fmt.Fprintln(os.Stderr, "usage: gowp dump|verify|check ...")
		os.Exit(2)
	}
	switch os.Args[1] {
	case "dump":
		cmdDump(os.Args[2:])
	case "verify":
		cmdVerify(os.Args[2:])
	case "check":
		cmdCheck(os.Args[2:])
	case "mutant":
		cmdMutant(os.Args[2:])
	default:
		fmt.Fprintln(os.Stderr, "unknown command", os.Args[1])
		os.Exit(2)
	}
}

func extSpecs() []string {
	dir := os.Getenv("GOWP_CONTRACTS")
	if dir == "" {
		dir = "/verif/contracts"
	}
	ents, _ := os.ReadDir(dir)
	var out []string
	for _, e := range ents {
		if strings.HasSuffix(e.Name(), ".spec") {
			out = append(out, dir+"/"+e.Name())
		}
	}
	sort.Strings(out)
	return out
}

func cmdDump(args []string) {
	eng, err := LoadEngine("/repo", nil, extSpecs())
	if err != nil {
		fmt.Fprintln(os.Stderr, err)
		os.Exit(2)
	}
	if len(args) == 0 {
		var keys []string
		for k := range eng.funcs {
			keys = append(keys, k)
		}
		sort.Strings(keys)
		for _, k := range keys {
			fmt.Println(k)
		}
		return
	}
	for _, a := range args {
		for _, fn := range eng.findFuncs(a) {
			fmt.Println("## key:", eng.funcKey(fn))
			li := analyzeLoops(fn)
			fmt.Println("## loop headers (block index):", li.headers)
			writeFn(fn)
		}
	}
}

func writeFn(fn *ssa.Function) {
	var sb strings.Builder
	fn.WriteTo(&sb)
	for _, l := range strings.Split(sb.String(), "\n") {
		if strings.HasPrefix(strings.TrimSpace(l), ";") {
			continue
		}
		fmt.Println(l)
	}
}

func cmdVerify(args []string) {
	fs := flag.NewFlagSet("verify", flag.ExitOnError)
	timeout := fs.Int("t", 10, "per-obligation timeout (s)")
	keep := fs.Bool("keep", false, "keep SMT files")
	verbose := fs.Bool("v", false, "verbose")
	lemmas := fs.Bool("lemmas", false, "also prove lemmas")
	fs.Parse(args)
	eng, err := LoadEngine("/repo", nil, extSpecs())
	if err != nil {
		fmt.Fprintln(os.Stderr, err)
		os.Exit(2)
	}
	eng.preRegister()
	var items []struct {
		Run *FuncRun
		Obl *Obligation
	}
	var runs []*FuncRun
	for _, a := range fs.Args() {
		fns := eng.findFuncs(a)
		if len(fns) == 0 {
			fmt.Println("no function matches", a)
		}
		for _, fn := range fns {
			run := eng.VerifyFunction(fn, nil)
			if run.aborted == "" {
				func() {
					defer func() {
						if r := recover(); r != nil {
							if ee, ok := r.(engineError); ok {
								run.aborted = ee.msg
								return
							}
							panic(r)
						}
					}()
					run.finalize("")
				}()
			}
			runs = append(runs, run)
		}
	}
	if *lemmas {
		for _, ax := range eng.axioms {
			if ax.IsLemma {
				runs = append(runs, eng.LemmaRun(ax))
			}
		}
	}
	for _, run := range runs {
		if run.aborted != "" {
			fmt.Printf("ABORTED %s: %s\n", run.key, run.aborted)
			continue
		}
		for _, o := range run.obls {
			items = append(items, struct {
				Run *FuncRun
				Obl *Obligation
			}{run, o})
		}
	}
	work := "/verif/.work/verify"
	os.RemoveAll(work)
	results := Discharge(items, work, *timeout, 16, false)
	fails := 0
	byName := map[string][]*Result{}
	var order []string
	for _, r := range results {
		n := r.Obl.Name()
		if _, ok := byName[n]; !ok {
			order = append(order, n)
		}
		byName[n] = append(byName[n], r)
	}
	for _, n := range order {
		rs := byName[n]
		ok := 0
		var ms int64
		for _, r := range rs {
			if r.OK() {
				ok++
			}
			ms += r.Ms
		}
		status := "ok  "
		if ok != len(rs) {
			status = "FAIL"
			fails++
		}
		if *verbose || ok != len(rs) {
			fmt.Printf("%s %-60s %d/%d paths %5dms %s\n", status, n, ok, len(rs), ms, rs[0].Tried)
			for _, r := range rs {
				if !r.OK() {
					fmt.Printf("       path %d status=%s %v file=%s\n         goal: %s @ %s trail=%v\n", r.Obl.Path, r.Status, r.Tried, r.File, r.Obl.Goal, r.Obl.Where, r.Obl.Trail)
				}
			}
		}
	}
	for _, run := range runs {
		if len(run.unknownCalls) > 0 {
			fmt.Printf("note %s: unknown calls: %v\n", run.key, sortedKeys(run.unknownCalls))
		}
		for _, n := range run.notes {
			fmt.Printf("note %s: %s\n", run.key, n)
		}
	}
	fmt.Printf("%d obligations (%d names), %d failing names\n", len(results), len(order), fails)
	if !*keep && fails == 0 {
		os.RemoveAll(work)
	}
	if fails > 0 {
		os.Exit(1)
	}
}

