package main

// gowp check <property> <quick|thorough>: the per-property check entry point.

import (
	"encoding/json"
	"fmt"
	"os"
	"os/exec"
	"path/filepath"
	"sort"
	"strings"
	"time"

	"golang.org/x/tools/go/ssa"
)

type PropFunc struct {
	Key       string   `json:"key"`
	Labels    []string `json:"labels,omitempty"`    // ensures labels in this property's cone (empty = all)
	Instances bool     `json:"instances,omitempty"` // verify every instantiation instead of the generic body
	Safety    bool     `json:"safety_only,omitempty"`
}

type Bounded struct {
	Name   string `json:"name"`
	Cmd    string `json:"cmd"`
	Bound  string `json:"bound"`
	Quick  bool   `json:"quick"` // also run in the quick tier
	Stands string `json:"stands_in_for"`
}

type PropConfig struct {
	ID          string     `json:"id"`
	Level       string     `json:"level"`
	Functions   []PropFunc `json:"functions"`
	LemmaPkgs   []string   `json:"lemma_packages"`
	Explanation string     `json:"explanation"`
	Assumptions []string   `json:"assumptions"`
	Bounded     []Bounded  `json:"bounded"`
	Mutants     []string   `json:"mutants"`
	MinObligations int     `json:"min_obligations"`
	UnknownOK   []string   `json:"unknown_ok"` // module functions this cone knowingly calls without a contract
	Static      []string   `json:"static"` // static companions: "global-writes"
}

type KnownFinding struct {
	Property   string `json:"property"`
	Status     string `json:"status"` // open | fixed
	Obligation string `json:"obligation"`
	Witness    string `json:"witness"`
	Commit     string `json:"commit,omitempty"`
	What       string `json:"what"`
}

func verifDir() string {
	if d := os.Getenv("VERIF_DIR"); d != "" {
		return d
	}
	return "/verif"
}

func repoDir() string {
	if d := os.Getenv("VERIF_REPO"); d != "" {
		return d
	}
	return "/repo"
}

// replayOnly: with --replay, the one obligation (name without path label) to report on
var replayOnly string
var replayMode bool

func cmdCheck(args []string) {
	if len(args) < 2 {
		fmt.Fprintln(os.Stderr, "usage: gowp check <property> <quick|thorough>")
		os.Exit(2)
	}
	id, tier := args[0], args[1]
	replayFile := ""
	for i := 2; i+1 < len(args); i++ {
		if args[i] == "--replay" {
			replayFile = args[i+1]
		}
	}
	start := time.Now()
	vd := verifDir()
	var cfg PropConfig
	data, err := os.ReadFile(filepath.Join(vd, "props", id+".json"))
	if err != nil {
		fmt.Fprintln(os.Stderr, err)
		os.Exit(2)
	}
	if err := json.Unmarshal(data, &cfg); err != nil {
		fmt.Fprintln(os.Stderr, "bad property config:", err)
		os.Exit(2)
	}
	seed := 0
	if s := os.Getenv("VERIF_SEED"); s != "" {
		fmt.Sscan(s, &seed)
	}
	timeout := 20
	if tier == "thorough" {
		timeout = 60
	}
	if replayFile != "" {
		// --replay <file>: re-check only what the replay file records (one
		// obligation of one function, or one bounded stand-in) on the current tree
		var rp map[string]any
		data, err := os.ReadFile(replayFile)
		if err != nil || json.Unmarshal(data, &rp) != nil {
			fmt.Fprintln(os.Stderr, "cannot read replay file", replayFile)
			os.Exit(2)
		}
		if b, ok := rp["bounded"].(string); ok {
			var keep []Bounded
			for _, x := range cfg.Bounded {
				if x.Name == b {
					x.Quick = true
					keep = append(keep, x)
				}
			}
			cfg.Bounded, cfg.Functions, cfg.LemmaPkgs, cfg.Static, cfg.MinObligations = keep, nil, nil, nil, 0
		} else if o, ok := rp["obligation"].(string); ok {
			var keep []PropFunc
			for _, pf := range cfg.Functions {
				if strings.HasPrefix(o, pf.Key+".") || strings.HasPrefix(o, pf.Key+"[") {
					keep = append(keep, pf)
				}
			}
			if strings.HasPrefix(o, "static.") {
				cfg.Functions, cfg.Bounded, cfg.LemmaPkgs, cfg.MinObligations = nil, nil, nil, 0
			} else {
				cfg.Functions, cfg.Bounded, cfg.Static, cfg.MinObligations = keep, nil, nil, 0
				replayOnly = stripPathLabel(o)
			}
		}
		cfg.ID = id
		replayMode = true
		fmt.Printf("REPLAY %s\n", replayFile)
	}
	// scratch directories of earlier runs of this check that were killed
	if ents, err := os.ReadDir(filepath.Join(vd, ".work")); err == nil {
		for _, e := range ents {
			if e.IsDir() && strings.HasPrefix(e.Name(), id+"-") {
				pid := strings.TrimPrefix(e.Name(), id+"-")
				if _, err := os.Stat("/proc/" + pid); err != nil {
					os.RemoveAll(filepath.Join(vd, ".work", e.Name()))
				}
			}
		}
	}
	eng, err := LoadEngine(repoDir(), nil, extSpecs())
	if err != nil {
		fmt.Fprintln(os.Stderr, "ENGINE-ERROR loading /repo:", err)
		os.Exit(2)
	}
	eng.preRegister()
	res := eng.runProperty(&cfg, tier, timeout, filepath.Join(vd, ".work", fmt.Sprintf("%s-%d", id, os.Getpid())))
	if replayOnly != "" {
		var keep []*Result
		for _, r := range res.results {
			if stripPathLabel(r.Obl.Name()) == replayOnly {
				keep = append(keep, r)
			}
		}
		res.results = keep
	}
	res.finish(eng, &cfg, tier, seed, start)
}

type propResult struct {
	runs      []*FuncRun
	results   []*Result
	aborted   []*FuncRun
	workDir   string
	missing   []string
	boundedOut []map[string]any
	boundedFail []string
}

func (eng *Engine) runsForProperty(cfg *PropConfig) (runs []*FuncRun, missing []string) {
	for _, pf := range cfg.Functions {
		var fns []*ssa.Function
		if pf.Instances {
			fns = eng.instancesOf(pf.Key)
		} else {
			fns = eng.findFuncs(pf.Key)
		}
		if len(fns) == 0 {
			missing = append(missing, pf.Key)
			continue
		}
		var cone map[string]bool
		if len(pf.Labels) > 0 {
			cone = map[string]bool{}
			for _, l := range pf.Labels {
				cone[l] = true
			}
		}
		if pf.Safety {
			cone = map[string]bool{"<none>": true}
		}
		for _, fn := range fns {
			run := eng.VerifyFunction(fn, cone)
			if run.aborted == "" {
				safeFinalize(run, "")
			}
			runs = append(runs, run)
		}
	}
	seen := map[string]bool{}
	for _, p := range cfg.LemmaPkgs {
		for _, ax := range eng.axioms {
			if ax.IsLemma && ax.Pkg == p && !seen[ax.Name] {
				seen[ax.Name] = true
				runs = append(runs, eng.LemmaRun(ax))
			}
		}
	}
	return
}

func safeFinalize(run *FuncRun, ex string) {
	defer func() {
		if r := recover(); r != nil {
			if ee, ok := r.(engineError); ok {
				run.aborted = ee.msg
				return
			}
			panic(r)
		}
	}()
	run.finalize(ex)
}

func (eng *Engine) runProperty(cfg *PropConfig, tier string, timeout int, work string) *propResult {
	pr := &propResult{workDir: work}
	pr.runs, pr.missing = eng.runsForProperty(cfg)
	// a function that calls a helper of this module which has no contract and cannot be executed
	// in place (it has loops) treats the helper as arbitrary code: its obligations are undecided,
	// not violations (an extracted helper must not alarm) - reported as DEGRADED
	okUnknown := map[string]bool{}
	for _, k := range cfg.UnknownOK {
		okUnknown[k] = true
	}
	for _, run := range pr.runs {
		if run.aborted != "" {
			continue
		}
		for _, k := range sortedKeys(run.unknownCalls) {
			if !okUnknown[k] && isModuleFuncKey(k) {
				run.aborted = "calls " + k + ", a helper without a contract that cannot be executed in place (it has loops, closures, or calls functions that have neither a contract nor an entry in externals.spec); its effect is unknown"
				break
			}
		}
	}
	var items []struct {
		Run *FuncRun
		Obl *Obligation
	}
	for _, run := range pr.runs {
		if run.aborted != "" {
			pr.aborted = append(pr.aborted, run)
			continue
		}
		for _, o := range run.obls {
			items = append(items, struct {
				Run *FuncRun
				Obl *Obligation
			}{run, o})
		}
	}
	os.RemoveAll(work)
	pr.results = Discharge(items, work, timeout, 16, tier == "thorough")
	return pr
}

// loadKnownFindings parses /verif/known_findings.txt (never written at run time).
func loadKnownFindings() []KnownFinding {
	var kf []KnownFinding
	data, err := os.ReadFile(filepath.Join(verifDir(), "known_findings.txt"))
	if err != nil {
		return nil
	}
	for _, line := range strings.Split(string(data), "\n") {
		line = strings.TrimSpace(line)
		if line == "" || strings.HasPrefix(line, "#") {
			continue
		}
		var k KnownFinding
		switch {
		case strings.HasPrefix(line, "open:"):
			k.Status = "open"
			rest := strings.TrimSpace(line[5:])
			what := ""
			if i := strings.Index(rest, "::"); i >= 0 {
				what = strings.TrimSpace(rest[i+2:])
				rest = rest[:i]
			}
			k.What = what
			for _, f := range splitKV(rest) {
				switch {
				case strings.HasPrefix(f, "property="):
					k.Property = f[9:]
				case strings.HasPrefix(f, "obligation="):
					k.Obligation = f[11:]
				case strings.HasPrefix(f, "witness="):
					k.Witness = f[8:]
				}
			}
		case strings.HasPrefix(line, "fixed:"):
			k.Status = "fixed"
			fs := strings.Fields(line[6:])
			if len(fs) >= 2 {
				k.Property = strings.TrimPrefix(fs[0], "property=")
				k.Commit = fs[1]
				k.What = strings.Join(fs[2:], " ")
			}
		default:
			continue
		}
		kf = append(kf, k)
	}
	return kf
}

// splitKV splits "a=b c=d e f" into key=value fields where values may contain spaces.
func splitKV(s string) []string {
	var out []string
	for _, w := range strings.Fields(s) {
		if strings.Contains(w, "=") && (strings.HasPrefix(w, "property=") || strings.HasPrefix(w, "obligation=") || strings.HasPrefix(w, "witness=")) {
			out = append(out, w)
		} else if len(out) > 0 {
			out[len(out)-1] += " " + w
		}
	}
	return out
}

func (pr *propResult) finish(eng *Engine, cfg *PropConfig, tier string, seed int, start time.Time) {
	vd := verifDir()
	id := cfg.ID
	known := loadKnownFindings()
	type agg struct {
		name    string
		paths   int
		ok      int
		ms      int64
		solvers map[string]int
		fails   []*Result
		goal    string
		where   string
	}
	byName := map[string]*agg{}
	var order []string
	total, discharged, covers, coverFail := 0, 0, 0, 0
	for _, r := range pr.results {
		n := r.Obl.Name()
		a := byName[n]
		if a == nil {
			a = &agg{name: n, solvers: map[string]int{}, goal: r.Obl.Goal, where: r.Obl.Where}
			byName[n] = a
			order = append(order, n)
		}
		a.paths++
		a.ms += r.Ms
		if r.Obl.ExpectSat {
			covers++
			if !r.OK() {
				coverFail++
				a.fails = append(a.fails, r)
			} else {
				a.ok++
			}
			continue
		}
		total++
		if r.OK() {
			discharged++
			a.ok++
			a.solvers[r.Solver]++
		} else {
			a.fails = append(a.fails, r)
		}
	}
	violations := 0
	var violationLines []string
	var degraded []string
	replayDir := filepath.Join(vd, "replays", id)
	os.MkdirAll(replayDir, 0o755)
	// 1. undischarged obligations
	for _, n := range order {
		a := byName[n]
		if len(a.fails) == 0 {
			continue
		}

		// known finding?
		isKnown := false
		for _, k := range known {
			if k.Property == id && k.Status == "open" && k.Obligation == stripPathLabel(n) {
				fmt.Printf("KNOWN-FINDING: property=%s %s witness=%s %s\n", id, k.Obligation, k.Witness, k.What)
				isKnown = true
			}
		}
		if isKnown {
			continue
		}
		violations++
		f := a.fails[0]
		rp := filepath.Join(replayDir, sanitizeFile(n)+".json")
		smt, _ := os.ReadFile(f.File)
		replay := map[string]any{
			"property": id, "obligation": n, "goal": a.goal, "contract_at": a.where,
			"failing_paths": len(a.fails), "paths": a.paths,
			"solver_status": f.Status, "solvers_tried": f.Tried, "solver_output": truncate(f.Output, 4000),
			"branch_trail": f.Obl.Trail, "code_at": f.Obl.Where,
			"meaning": "this obligation is generated from /repo's current source and the contract; it could not be discharged, so the property is not established for this code",
			"failing_input": nil,
			"smt2": truncate(string(smt), 200000),
		}
		suffix := " no-failing-input-found"
		if f.Obl.ExpectSat {
			replay["meaning"] = "vacuity guard: a precondition or loop invariant is unsatisfiable on this path, so everything after it would be proved vacuously"
		}
		writeJSON(rp, replay)
		violationLines = append(violationLines, fmt.Sprintf("VIOLATION property=%s replay=%s obligation=%s status=%s%s", id, rp, n, f.Status, suffix))
	}
	// 2. functions whose obligations could not be generated
	for _, run := range pr.aborted {
		degraded = append(degraded, fmt.Sprintf("%s: %s", run.key, run.aborted))
		fmt.Printf("DEGRADED obligation-generation function=%s reason=%s\n", run.key, run.aborted)
	}
	// check clauses that could not be evaluated on any return path (a local they mention is gone)
	for _, run := range pr.runs {
		if run.aborted != "" {
			continue
		}
		for lab, n := range run.checkSkip {
			if run.checkSeen[lab] == 0 && n > 0 {
				degraded = append(degraded, fmt.Sprintf("%s: check clause [%s] mentions a local variable that no longer exists on any return path", run.key, lab))
				fmt.Printf("DEGRADED obligation-generation function=%s reason=check clause [%s] not evaluable (local variable missing)\n", run.key, lab)
			}
		}
	}
	for _, m := range pr.missing {
		degraded = append(degraded, fmt.Sprintf("%s: function not found in the current tree", m))
		fmt.Printf("DEGRADED function=%s reason=not-found\n", m)
	}
	// 3. bounded stand-ins (always when degraded; otherwise per tier)
	var boundedEv []map[string]any
	for _, b := range cfg.Bounded {
		if tier == "quick" && !b.Quick && len(degraded) == 0 {
			continue
		}
		ev, ok := runBounded(b, tier, seed, id, replayDir)
		boundedEv = append(boundedEv, ev)
		if !ok {
			violations++
			rp, _ := ev["replay"].(string)
			violationLines = append(violationLines, fmt.Sprintf("VIOLATION property=%s replay=%s bounded=%s", id, rp, b.Name))
		}
	}
	// 4. static companions
	var staticEv []map[string]any
	for _, sc := range cfg.Static {
		if sc != "global-writes" {
			continue
		}
		fs, nf, ng := eng.scanGlobalWrites()
		ev := map[string]any{"name": "global-writes", "label": "static analysis (flow-insensitive points-to-global taint over go/ssa; not counted as proved)",
			"functions_scanned": nf, "package_level_variables": ng, "findings": len(fs),
			"statement": "outside the package initialisers no function of the module stores to a package-level variable, to a component of one, through a pointer derived from one, or updates/appends to/deletes from a map or slice loaded from one"}
		staticEv = append(staticEv, ev)
		if nf == 0 || ng == 0 {
			violations++
			rp := filepath.Join(replayDir, "static-global-writes-vacuous.json")
			writeJSON(rp, map[string]any{"property": id, "obligation": "static.global-write.vacuity", "functions_scanned": nf, "package_level_variables": ng})
			violationLines = append(violationLines, fmt.Sprintf("VIOLATION property=%s replay=%s obligation=static.global-write.vacuity no-failing-input-found", id, rp))
		}
		for _, f := range fs {
			n := f.Name()
			isKnown := false
			for _, k := range known {
				if k.Property == id && k.Status == "open" && k.Obligation == n {
					fmt.Printf("KNOWN-FINDING: property=%s %s witness=%s %s\n", id, k.Obligation, k.Witness, k.What)
					isKnown = true
				}
			}
			if isKnown {
				continue
			}
			violations++
			rp := filepath.Join(replayDir, sanitizeFile(n)+".json")
			writeJSON(rp, map[string]any{"property": id, "obligation": n, "function": f.Func, "code_at": f.Pos, "package_level_variable": f.Global, "what": f.What,
				"meaning": "a function other than a package initialiser may write memory owned by a package-level variable: concurrent callers would share that write",
				"failing_input": nil})
			violationLines = append(violationLines, fmt.Sprintf("VIOLATION property=%s replay=%s obligation=%s at=%s no-failing-input-found", id, rp, n, f.Pos))
		}
	}
	// vacuity floor
	if total < cfg.MinObligations && len(degraded) == 0 {
		violations++
		rp := filepath.Join(replayDir, "vacuity-floor.json")
		writeJSON(rp, map[string]any{"property": id, "obligation": "vacuity.floor", "generated": total, "floor": cfg.MinObligations,
			"meaning": "fewer obligations were generated than the committed floor: the contracts no longer constrain the code"})
		violationLines = append(violationLines, fmt.Sprintf("VIOLATION property=%s replay=%s obligation=vacuity.floor no-failing-input-found", id, rp))
	}
	// evidence
	var fnKeys []string
	usedExt := map[string]bool{}
	usedCon := map[string]bool{}
	unknown := map[string]bool{}
	usedAx := map[string]bool{}
	assumedFr := map[string]bool{}
	for _, run := range pr.runs {
		if run.aborted == "" && !strings.HasPrefix(run.key, "lemma:") {
			fnKeys = append(fnKeys, run.key)
		}
		for k := range run.usedExternals {
			usedExt[k] = true
		}
		for k := range run.usedContracts {
			usedCon[k] = true
		}
		for k := range run.unknownCalls {
			unknown[run.key+" -> "+k] = true
		}
		for k := range run.usedAxioms {
			usedAx[k] = true
		}
		for k := range run.assumedFrames {
			assumedFr[k] = true
		}
	}
	var perObl []map[string]any
	solverTotals := map[string]int{}
	var solverMs int64
	for _, n := range order {
		a := byName[n]
		var ss []string
		for s, c := range a.solvers {
			ss = append(ss, fmt.Sprintf("%s×%d", s, c))
			solverTotals[s] += c
		}
		sort.Strings(ss)
		solverMs += a.ms
		perObl = append(perObl, map[string]any{"name": n, "paths": a.paths, "discharged": a.ok, "ms": a.ms, "by": strings.Join(ss, " ")})
	}
	var samples []map[string]any
	for i, r := range pr.results {
		if len(samples) >= 3 {
			break
		}
		if r.Obl.ExpectSat || (i%37 != 0 && len(pr.results) > 40) {
			continue
		}
		lines := r.Obl.Lines
		tail := lines
		if len(tail) > 6 {
			tail = tail[len(tail)-6:]
		}
		samples = append(samples, map[string]any{"obligation": r.Obl.Name(), "path": r.Obl.Path, "goal": r.Obl.Goal, "contract_at": r.Obl.Where, "smt_tail": truncateLines(tail, 600), "status": r.Status, "solver": r.Solver})
	}
	assumptions := append([]string(nil), cfg.Assumptions...)
	assumptions = append(assumptions,
		"machine integers are treated as mathematical integers (no overflow modelled)",
		"allocation never fails; goroutines, channels, unsafe and cgo do not occur in the functions under contract",
		"the go/ssa translation (x/tools v0.29.0) and this VC generator are trusted; solvers z3 4.8.12, z3 5.1.0, cvc5 1.0.3 are trusted")
	for _, k := range sortedKeys(usedExt) {
		fc := eng.externals[k]
		note := ""
		if fc != nil {
			note = fc.Note
		}
		assumptions = append(assumptions, "assumed external contract: "+k+" — "+note)
	}
	for _, k := range sortedKeys(assumedFr) {
		note := ""
		if fc := eng.contracts[k]; fc != nil {
			note = fc.Note
		}
		assumptions = append(assumptions, "assumed frame (callers rely on it, the body is not verified against it): "+k+" — "+note)
	}
	for _, k := range sortedKeys(unknown) {
		assumptions = append(assumptions, "call without a contract treated as arbitrary (heap forgotten, result unconstrained): "+k)
	}
	level := cfg.Level
	cov := map[string]any{
		"obligations": total, "discharged": discharged,
		"checker_cmd": fmt.Sprintf("%s/check %s %s", vd, id, tier),
		"trusted_base": []string{"go/ssa (golang.org/x/tools v0.29.0) NaiveForm translation of /repo's working tree", "gowp VC generator (/verif/engine)", "z3 4.8.12", "z3 5.1.0", "cvc5 1.0.3", "external contracts in /verif/contracts/externals.spec (listed under assumptions)"},
		"explanation": cfg.Explanation,
		"functions_under_contract": fnKeys,
		"contracts_used_at_call_sites": sortedKeys(usedCon),
		"lemmas_and_axioms_used": sortedKeys(usedAx),
		"vacuity": map[string]any{"cover_queries": covers, "cover_failures": coverFail, "obligation_floor": cfg.MinObligations},
		"discharged_by": solverTotals, "solver_ms_total": solverMs,
		"per_obligation": perObl,
		"samples": samples,
		"bounded": boundedEv,
		"static": staticEv,
		"degraded": degraded,
		"evaluations": total + covers, "distinct_nontrivial": len(order),
		"rule": "one SMT query per (obligation name, control-flow path); an obligation name is Function.kind.label; all are generated from the SSA of /repo's working tree on this run",
		"contract_files": eng.files,
	}
	ev := map[string]any{
		"property_id": id, "tier": tier, "seed": seed, "level": level,
		"coverage": cov, "assumptions": assumptions,
		"wall_s": time.Since(start).Seconds(), "violations": violations,
	}
	// VERIF_EVIDENCE_DIR: where the evidence file goes (the corpora of /verif/selftest run the checks
	// against patched trees and must not overwrite the evidence of the unchanged tree); unset in
	// every registered command
	evDir := filepath.Join(vd, "evidence")
	if d := os.Getenv("VERIF_EVIDENCE_DIR"); d != "" {
		evDir = d
	}
	os.MkdirAll(evDir, 0o755)
	if !replayMode {
		writeJSON(filepath.Join(evDir, id+".json"), ev)
	}
	os.RemoveAll(pr.workDir)
	for _, l := range violationLines {
		fmt.Println(l)
	}
	fmt.Printf("property %s tier %s: %d/%d obligations discharged (%d names), %d cover queries, %d degraded, %d violations, %.1fs\n",
		id, tier, discharged, total, len(order), covers, len(degraded), violations, time.Since(start).Seconds())
	if violations > 0 {
		os.Exit(1)
	}
}

// isModuleFuncKey: does an unknown-call description name a function of the module under verification?
func isModuleFuncKey(k string) bool {
	k = strings.TrimPrefix(strings.TrimPrefix(k, "("), "*")
	for _, p := range []string{"ordered.", "pipeline.", "signature.", "jwkutil.", "warning.", "env."} {
		if strings.HasPrefix(k, p) {
			return true
		}
	}
	return false
}

func stripPathLabel(n string) string {
	if i := strings.LastIndex(n, "/"); i >= 0 {
		tail := n[i+1:]
		digits := tail != ""
		for _, r := range tail {
			if r < '0' || r > '9' {
				digits = false
			}
		}
		if digits {
			return n[:i]
		}
	}
	return n
}

func sanitizeFile(s string) string {
	var b strings.Builder
	for _, r := range s {
		if r >= 'a' && r <= 'z' || r >= 'A' && r <= 'Z' || r >= '0' && r <= '9' || r == '.' || r == '-' || r == '_' {
			b.WriteRune(r)
		} else {
			b.WriteByte('_')
		}
	}
	return b.String()
}

func truncate(s string, n int) string {
	if len(s) > n {
		return s[:n] + "…"
	}
	return s
}

func truncateLines(ls []string, n int) []string {
	out := make([]string, len(ls))
	for i, l := range ls {
		out[i] = truncate(l, n)
	}
	return out
}

func writeJSON(path string, v any) {
	data, _ := json.MarshalIndent(v, "", " ")
	os.WriteFile(path, data, 0o644)
}

// runBounded runs a bounded stand-in command. The command prints a final line
// "BOUNDED name=<n> cases=<k> failures=<f> [replay=<path>]" and exits 0/1.
func runBounded(b Bounded, tier string, seed int, id, replayDir string) (map[string]any, bool) {
	cmd := exec.Command("/bin/sh", "-c", b.Cmd)
	cmd.Dir = verifDir()
	cmd.Env = append(os.Environ(), "VERIF_TIER="+tier, fmt.Sprintf("VERIF_SEED=%d", seed), "VERIF_REPLAY_DIR="+replayDir,
		"GOFLAGS=-mod=mod", "GOPROXY=off", "GOSUMDB=off", "GOTOOLCHAIN=local")
	start := time.Now()
	out, err := cmd.CombinedOutput()
	ev := map[string]any{"name": b.Name, "bound": b.Bound, "stands_in_for": b.Stands, "label": "bounded (not counted as proved)", "wall_s": time.Since(start).Seconds()}
	ok := err == nil
	for _, l := range strings.Split(string(out), "\n") {
		if strings.HasPrefix(l, "BOUNDED ") {
			for _, kv := range strings.Fields(l)[1:] {
				if i := strings.Index(kv, "="); i > 0 {
					ev[kv[:i]] = kv[i+1:]
				}
			}
		}
		if strings.HasPrefix(l, "KNOWN-FINDING:") {
			fmt.Println(l)
		}
	}
	if !ok {
		ev["output_tail"] = truncate(tailOf(string(out), 3000), 3000)
		if _, has := ev["replay"]; !has {
			rp := filepath.Join(replayDir, "bounded-"+sanitizeFile(b.Name)+".json")
			writeJSON(rp, map[string]any{"property": id, "bounded": b.Name, "output": tailOf(string(out), 8000)})
			ev["replay"] = rp
		}
	}
	return ev, ok
}

func tailOf(s string, n int) string {
	if len(s) > n {
		return s[len(s)-n:]
	}
	return s
}
