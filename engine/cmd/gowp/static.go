package main

// Static companion of the frame obligations (property C19, part G1): no
// function of the module other than the package initialisers writes memory
// owned by a package-level variable. Functions under contract prove this
// through their frame.* obligations; this scan extends the statement to every
// function of the module, including those no contract reaches. It is a
// flow-insensitive points-to-global taint analysis over go/ssa - a static
// analysis, not a proof: its gaps are listed in DESIGN.md (values that escape
// into heap objects, and calls into dependencies, are not followed).

import (
	"fmt"
	"go/token"
	"go/types"
	"sort"
	"strings"

	"golang.org/x/tools/go/ssa"
)

type StaticFinding struct {
	Func   string
	Pos    string
	Global string
	What   string
}

func (f StaticFinding) Name() string {
	return "static.global-write." + f.Func + "." + strings.TrimPrefix(f.Global, "G:")
}

type globalTaint struct {
	eng     *Engine
	val     map[ssa.Value]string // value points into memory owned by this global
	cell    map[ssa.Value]string // local cell (Alloc / FreeVar) holds such a value
	boxed   map[ssa.Value]bool   // interface value boxing a pointer/slice/map into global-owned memory
	param   map[*ssa.Function]map[int]string
	ret     map[*ssa.Function]string
	changed bool
	byName  map[string][]*ssa.Function // method name -> module methods
	dyn     map[string][]types.Type    // interface-typed global -> concrete types its initialiser stores (nil entry = not a module type)
	dynOpen map[string]bool            // ... or unknown
	all     []*ssa.Function
}

func canHoldRef(t types.Type) bool {
	switch u := t.Underlying().(type) {
	case *types.Pointer, *types.Slice, *types.Map, *types.Interface, *types.Chan, *types.Signature:
		return true
	case *types.Struct:
		for i := 0; i < u.NumFields(); i++ {
			if canHoldRef(u.Field(i).Type()) {
				return true
			}
		}
	case *types.Array:
		return canHoldRef(u.Elem())
	case *types.Tuple:
		for i := 0; i < u.Len(); i++ {
			if canHoldRef(u.At(i).Type()) {
				return true
			}
		}
	case *types.TypeParam:
		return true
	}
	return false
}

func mutableRef(t types.Type) bool {
	switch t.Underlying().(type) {
	case *types.Pointer, *types.Slice, *types.Map:
		return true
	}
	return false
}

// t: the package-level variable whose memory v points into ("" if none known).
func (g *globalTaint) t(v ssa.Value) string {
	if gl, ok := v.(*ssa.Global); ok && g.moduleGlobal(gl) {
		return compGlobal(gl)
	}
	return g.val[v]
}

func (g *globalTaint) setVal(v ssa.Value, o string) {
	if o == "" || v == nil {
		return
	}
	if _, ok := g.val[v]; !ok {
		g.val[v] = o
		g.changed = true
	}
}

func (g *globalTaint) setCell(v ssa.Value, o string) {
	if o == "" || v == nil {
		return
	}
	if _, ok := g.cell[v]; !ok {
		g.cell[v] = o
		g.changed = true
	}
}

// cellRoot follows FieldAddr/IndexAddr chains down to a local cell, if any.
func cellRoot(v ssa.Value) ssa.Value {
	for {
		switch x := v.(type) {
		case *ssa.FieldAddr:
			v = x.X
			continue
		case *ssa.IndexAddr:
			if _, isPtr := x.X.Type().Underlying().(*types.Pointer); isPtr {
				v = x.X
				continue
			}
			return nil
		case *ssa.Alloc:
			return x
		case *ssa.FreeVar:
			return x
		}
		return nil
	}
}

func isInitFunc(fn *ssa.Function) bool {
	for fn != nil {
		if fn.Synthetic == "package initializer" || (fn.Parent() == nil && (fn.Name() == "init" || strings.HasPrefix(fn.Name(), "init#"))) {
			return true
		}
		fn = fn.Parent()
	}
	return false
}

func (g *globalTaint) moduleFunc(fn *ssa.Function) bool {
	if fn == nil || len(fn.Blocks) == 0 {
		return false
	}
	p := fn.Pkg
	if p == nil && fn.Origin() != nil {
		p = fn.Origin().Pkg
	}
	for p == nil && fn.Parent() != nil {
		fn = fn.Parent()
		p = fn.Pkg
		if p == nil && fn.Origin() != nil {
			p = fn.Origin().Pkg
		}
	}
	return p != nil && strings.HasPrefix(p.Pkg.Path(), modulePath)
}

func (g *globalTaint) taintParam(fn *ssa.Function, i int, o string) {
	if o == "" || !g.moduleFunc(fn) {
		return
	}
	if g.param[fn] == nil {
		g.param[fn] = map[int]string{}
	}
	if _, ok := g.param[fn][i]; !ok {
		g.param[fn][i] = o
		g.changed = true
	}
}

// callees resolves a call to the module functions it may reach.
func (g *globalTaint) callees(c *ssa.CallCommon) []*ssa.Function {
	if c.IsInvoke() {
		return g.byName[c.Method.Name()]
	}
	switch f := c.Value.(type) {
	case *ssa.Function:
		return []*ssa.Function{f}
	case *ssa.MakeClosure:
		if fn, ok := f.Fn.(*ssa.Function); ok {
			return []*ssa.Function{fn}
		}
	case *ssa.Builtin:
		return nil
	}
	// call through a function value: every module function with this signature
	var out []*ssa.Function
	sig, _ := c.Value.Type().Underlying().(*types.Signature)
	if sig == nil {
		return nil
	}
	for _, fn := range g.all {
		if fn.Signature != nil && fn.Signature.Recv() == nil && types.Identical(fn.Signature, sig) {
			out = append(out, fn)
		}
	}
	return out
}

func (g *globalTaint) visit(fn *ssa.Function, findings *[]StaticFinding, report bool) {
	pos := func(p token.Pos) string {
		if g.eng.fset == nil || !p.IsValid() {
			return ""
		}
		ps := g.eng.fset.Position(p)
		return fmt.Sprintf("%s:%d", strings.TrimPrefix(ps.Filename, g.eng.repoDir+"/"), ps.Line)
	}
	add := func(p token.Pos, o, what string) {
		if !report || isInitFunc(fn) {
			return
		}
		*findings = append(*findings, StaticFinding{Func: g.eng.funcKey(fn), Pos: pos(p), Global: o, What: what})
	}
	for i, p := range fn.Params {
		if o, ok := g.param[fn][i]; ok {
			g.setVal(p, o)
		}
	}
	for _, b := range fn.Blocks {
		for _, in := range b.Instrs {
			switch x := in.(type) {
			case *ssa.FieldAddr:
				g.setVal(x, g.t(x.X))
			case *ssa.IndexAddr:
				g.setVal(x, g.t(x.X))
			case *ssa.Field:
				if canHoldRef(x.Type()) {
					g.setVal(x, g.t(x.X))
				}
			case *ssa.Index:
				if canHoldRef(x.Type()) {
					g.setVal(x, g.t(x.X))
				}
			case *ssa.Slice:
				g.setVal(x, g.t(x.X))
			case *ssa.ChangeType:
				g.setVal(x, g.t(x.X))
			case *ssa.Convert:
				if canHoldRef(x.Type()) {
					g.setVal(x, g.t(x.X))
				}
			case *ssa.ChangeInterface:
				g.setVal(x, g.t(x.X))
			case *ssa.MakeInterface:
				if canHoldRef(x.X.Type()) {
					g.setVal(x, g.t(x.X))
					if g.t(x.X) != "" && mutableRef(x.X.Type()) && !g.boxed[x] {
						g.boxed[x] = true
						g.changed = true
					}
				}
			case *ssa.SliceToArrayPointer:
				g.setVal(x, g.t(x.X))
			case *ssa.TypeAssert:
				if o := g.t(x.X); o != "" && g.mayHold(o, x.AssertedType) {
					g.setVal(x, o)
				}
			case *ssa.Extract:
				if canHoldRef(x.Type()) {
					g.setVal(x, g.t(x.Tuple))
				}
			case *ssa.Phi:
				for _, e := range x.Edges {
					g.setVal(x, g.t(e))
				}
			case *ssa.Lookup:
				if canHoldRef(x.Type()) {
					g.setVal(x, g.t(x.X))
				}
			case *ssa.Range:
				g.setVal(x, g.t(x.X))
			case *ssa.Next:
				g.setVal(x, g.t(x.Iter))
			case *ssa.UnOp:
				if x.Op != token.MUL {
					break
				}
				if gl, ok := x.X.(*ssa.Global); ok {
					if canHoldRef(x.Type()) && g.moduleGlobal(gl) {
						g.setVal(x, compGlobal(gl))
					}
					break
				}
				if canHoldRef(x.Type()) {
					g.setVal(x, g.t(x.X))
					if r := cellRoot(x.X); r != nil {
						g.setVal(x, g.cell[r])
					}
				}
			case *ssa.Store:
				if gl, ok := x.Addr.(*ssa.Global); ok && g.moduleGlobal(gl) {
					add(x.Pos(), compGlobal(gl), "assignment to the package-level variable")
					break
				}
				if root := globalRoot(x.Addr); root != nil && g.moduleGlobal(root) {
					add(x.Pos(), compGlobal(root), "store into a component of the package-level variable")
					break
				}
				if o := g.t(x.Addr); o != "" {
					add(x.Pos(), o, "store through a pointer into memory owned by the package-level variable")
					break
				}
				if r := cellRoot(x.Addr); r != nil {
					g.setCell(r, g.t(x.Val))
				}
			case *ssa.MapUpdate:
				if o := g.t(x.Map); o != "" {
					add(x.Pos(), o, "update of a map owned by the package-level variable")
				}
			case *ssa.MakeClosure:
				cf, _ := x.Fn.(*ssa.Function)
				if cf == nil {
					break
				}
				for i, bnd := range x.Bindings {
					if i >= len(cf.FreeVars) {
						break
					}
					fv := cf.FreeVars[i]
					g.setVal(fv, g.t(bnd))
					if r := cellRoot(bnd); r != nil {
						g.setCell(fv, g.cell[r])
						g.setCell(r, g.cell[fv])
					}
				}
			case *ssa.Return:
				for _, r := range x.Results {
					if o := g.t(r); o != "" {
						if _, had := g.ret[fn]; !had {
							g.ret[fn] = o
							g.changed = true
						}
					}
				}
			}
			// calls (Call, Defer, Go)
			var cc *ssa.CallCommon
			var cv ssa.Value
			switch x := in.(type) {
			case *ssa.Call:
				cc, cv = &x.Call, x
			case *ssa.Defer:
				cc = &x.Call
			case *ssa.Go:
				cc = &x.Call
			}
			if cc == nil {
				continue
			}
			if bi, ok := cc.Value.(*ssa.Builtin); ok {
				switch bi.Name() {
				case "append", "copy", "delete", "clear":
					if len(cc.Args) > 0 {
						if o := g.t(cc.Args[0]); o != "" {
							add(in.Pos(), o, bi.Name()+" on a slice or map owned by the package-level variable")
						}
					}
				}
				if bi.Name() == "append" && cv != nil && len(cc.Args) > 1 {
					// appended elements keep pointing where they pointed
					g.setVal(cv, g.t(cc.Args[1]))
				}
				continue
			}
			for _, callee := range g.callees(cc) {
				if !g.moduleFunc(callee) {
					// a dependency function receiving a mutable reference into
					// global-owned memory must be known not to write
					ec := g.eng.externalFor(callee)
					readOnly := ec != nil && (ec.Pure || ec.ReadsArgs || (ec.HasAssigns && len(ec.Assigns) == 0))
					if !readOnly {
						for _, a := range cc.Args {
							if o := g.t(a); o != "" && (mutableRef(a.Type()) || g.boxed[a]) {
								add(in.Pos(), o, "memory owned by the package-level variable is passed to "+g.eng.extKey(callee)+", which has no read-only contract in externals.spec")
							}
						}
					}
					continue
				}
				off := 0
				if cc.IsInvoke() {
					g.taintParam(callee, 0, g.t(cc.Value))
					off = 1
				}
				for i, a := range cc.Args {
					g.taintParam(callee, i+off, g.t(a))
				}
				if cv != nil && canHoldRef(cv.Type()) {
					g.setVal(cv, g.ret[callee])
				}
			}
		}
	}
}

// mayHold: can a value taken from the interface-typed global o have dynamic type t?
// The initialiser decides: a global holding only results of dependency
// constructors (errors.New, ...) never holds a value of a module type.
func (g *globalTaint) mayHold(o string, t types.Type) bool {
	if types.IsInterface(t) {
		return true
	}
	if g.dynOpen[o] {
		return true
	}
	ts, known := g.dyn[o]
	if !known {
		return true
	}
	for _, c := range ts {
		if c != nil && types.Identical(c, t) {
			return true
		}
	}
	return false
}

func (g *globalTaint) scanInitialisers() {
	for _, fn := range g.all {
		if !isInitFunc(fn) {
			continue
		}
		for _, b := range fn.Blocks {
			for _, in := range b.Instrs {
				st, ok := in.(*ssa.Store)
				if !ok {
					continue
				}
				gl, ok := st.Addr.(*ssa.Global)
				if !ok || !g.moduleGlobal(gl) {
					continue
				}
				name := compGlobal(gl)
				if !types.IsInterface(gl.Type().(*types.Pointer).Elem()) {
					g.dynOpen[name] = true
					continue
				}
				switch v := st.Val.(type) {
				case *ssa.MakeInterface:
					g.dyn[name] = append(g.dyn[name], v.X.Type())
				case *ssa.Call:
					if callee := v.Call.StaticCallee(); callee != nil && !g.moduleFunc(callee) {
						g.dyn[name] = append(g.dyn[name], nil)
					} else {
						g.dynOpen[name] = true
					}
				case *ssa.Const:
					g.dyn[name] = append(g.dyn[name], nil)
				default:
					g.dynOpen[name] = true
				}
			}
		}
	}
}

func globalRoot(v ssa.Value) *ssa.Global {
	for {
		switch x := v.(type) {
		case *ssa.FieldAddr:
			v = x.X
			continue
		case *ssa.IndexAddr:
			v = x.X
			continue
		case *ssa.Global:
			return x
		}
		return nil
	}
}

func (g *globalTaint) moduleGlobal(gl *ssa.Global) bool {
	return gl.Pkg != nil && strings.HasPrefix(gl.Pkg.Pkg.Path(), modulePath)
}

// scanGlobalWrites returns every place outside the package initialisers where
// memory owned by a package-level variable of the module may be written, and
// the number of functions and package-level variables scanned.
func (eng *Engine) scanGlobalWrites() (findings []StaticFinding, nFuncs, nGlobals int) {
	g := &globalTaint{eng: eng, val: map[ssa.Value]string{}, cell: map[ssa.Value]string{}, boxed: map[ssa.Value]bool{}, param: map[*ssa.Function]map[int]string{},
		ret: map[*ssa.Function]string{}, byName: map[string][]*ssa.Function{}, dyn: map[string][]types.Type{}, dynOpen: map[string]bool{}}
	seen := map[*ssa.Function]bool{}
	var addFn func(fn *ssa.Function)
	addFn = func(fn *ssa.Function) {
		if fn == nil || seen[fn] || len(fn.Blocks) == 0 {
			return
		}
		seen[fn] = true
		g.all = append(g.all, fn)
		if fn.Signature != nil && fn.Signature.Recv() != nil {
			g.byName[fn.Name()] = append(g.byName[fn.Name()], fn)
		}
		for _, a := range fn.AnonFuncs {
			addFn(a)
		}
	}
	var keys []string
	for k := range eng.funcs {
		keys = append(keys, k)
	}
	sort.Strings(keys)
	for _, k := range keys {
		addFn(eng.funcs[k])
	}
	for _, sp := range eng.spkgs {
		if sp == nil || !strings.HasPrefix(sp.Pkg.Path(), modulePath) {
			continue
		}
		for _, m := range sp.Members {
			if _, ok := m.(*ssa.Global); ok {
				nGlobals++
			}
		}
	}
	g.scanInitialisers()
	for round := 0; round < 50; round++ {
		g.changed = false
		for _, fn := range g.all {
			g.visit(fn, nil, false)
		}
		if !g.changed {
			break
		}
	}
	for _, fn := range g.all {
		g.visit(fn, &findings, true)
	}
	// one finding per (function, global, position)
	uniq := map[string]bool{}
	var out []StaticFinding
	for _, f := range findings {
		k := f.Func + "|" + f.Global + "|" + f.Pos + "|" + f.What
		if !uniq[k] {
			uniq[k] = true
			out = append(out, f)
		}
	}
	return out, len(g.all), nGlobals
}
