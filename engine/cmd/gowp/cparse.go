package main

// Contract language: lexer, Pratt parser and contract-file structure.
//
// Contracts live in //@ lines of files named contracts_verif.go (guarded by
// //go:build verif) next to the code, and in /verif/contracts/*.spec for
// external (dependency) functions.

import (
	"fmt"
	"os"
	"strconv"
	"strings"
	"unicode"
)

// ---------- expression AST ----------

type Expr interface{ exprNode() }

type (
	EIdent  struct{ Name string }
	EInt    struct{ V int64 }
	EStr    struct{ V string }
	EBool   struct{ V bool }
	ENil    struct{}
	EUnary  struct {
		Op string
		X  Expr
	}
	EBinary struct {
		Op   string
		X, Y Expr
	}
	ECond struct{ C, A, B Expr }
	ECall struct {
		Fun   string
		Args  []Expr
		TArgs []*TypeExpr // type arguments for typeis/unbox/box/zero
	}
	EIndex struct{ X, I Expr }
	EField struct {
		X    Expr
		Name string
	}
	EQuant struct {
		Forall   bool
		Vars     []Binder
		Triggers [][]Expr
		Body     Expr
	}
	ELet struct {
		Name string
		Val  Expr
		Body Expr
	}
)

type Binder struct {
	Name string
	Type *TypeExpr
}

func (*EIdent) exprNode()  {}
func (*EInt) exprNode()    {}
func (*EStr) exprNode()    {}
func (*EBool) exprNode()   {}
func (*ENil) exprNode()    {}
func (*EUnary) exprNode()  {}
func (*EBinary) exprNode() {}
func (*ECond) exprNode()   {}
func (*ECall) exprNode()   {}
func (*EIndex) exprNode()  {}
func (*EField) exprNode()  {}
func (*EQuant) exprNode()  {}
func (*ELet) exprNode()    {}

// TypeExpr is a parsed Go type expression.
type TypeExpr struct {
	Kind string // name, ptr, slice, map, array
	Pkg  string
	Name string
	Args []*TypeExpr // type args for name; [key, elem] for map; [elem] for ptr/slice
}

func (t *TypeExpr) String() string {
	switch t.Kind {
	case "ptr":
		return "*" + t.Args[0].String()
	case "slice":
		return "[]" + t.Args[0].String()
	case "map":
		return "map[" + t.Args[0].String() + "]" + t.Args[1].String()
	}
	s := t.Name
	if t.Pkg != "" {
		s = t.Pkg + "." + s
	}
	if len(t.Args) > 0 {
		var a []string
		for _, x := range t.Args {
			a = append(a, x.String())
		}
		s += "[" + strings.Join(a, ",") + "]"
	}
	return s
}

// ---------- lexer ----------

type ctoken struct {
	kind string // ident int str op eof
	text string
	pos  int
}

type lexer struct {
	src  string
	toks []ctoken
	i    int
	where string
}

func lex(src, where string) (*lexer, error) {
	lx := &lexer{src: src, where: where}
	i := 0
	for i < len(src) {
		c := src[i]
		switch {
		case c == ' ' || c == '\t' || c == '\n' || c == '\r':
			i++
		case unicode.IsLetter(rune(c)) || c == '_' || c == '$':
			j := i + 1
			for j < len(src) && (unicode.IsLetter(rune(src[j])) || unicode.IsDigit(rune(src[j])) || src[j] == '_' || src[j] == '$') {
				j++
			}
			lx.toks = append(lx.toks, ctoken{"ident", src[i:j], i})
			i = j
		case c >= '0' && c <= '9':
			j := i + 1
			for j < len(src) && src[j] >= '0' && src[j] <= '9' {
				j++
			}
			lx.toks = append(lx.toks, ctoken{"int", src[i:j], i})
			i = j
		case c == '"':
			j := i + 1
			for j < len(src) && src[j] != '"' {
				if src[j] == '\\' {
					j++
				}
				j++
			}
			if j >= len(src) {
				return nil, fmt.Errorf("%s: unterminated string", where)
			}
			s, err := strconv.Unquote(src[i : j+1])
			if err != nil {
				return nil, fmt.Errorf("%s: bad string %s", where, src[i:j+1])
			}
			lx.toks = append(lx.toks, ctoken{"str", s, i})
			i = j + 1
		case c == '`':
			j := i + 1
			for j < len(src) && src[j] != '`' {
				j++
			}
			lx.toks = append(lx.toks, ctoken{"str", src[i+1 : j], i})
			i = j + 1
		default:
			ops := []string{"<==>", "==>", "::", ":=", "==", "!=", "<=", ">=", "&&", "||", "..", "++"}
			matched := false
			for _, op := range ops {
				if strings.HasPrefix(src[i:], op) {
					lx.toks = append(lx.toks, ctoken{"op", op, i})
					i += len(op)
					matched = true
					break
				}
			}
			if !matched {
				lx.toks = append(lx.toks, ctoken{"op", string(c), i})
				i++
			}
		}
	}
	lx.toks = append(lx.toks, ctoken{"eof", "", len(src)})
	return lx, nil
}

func (l *lexer) peek() ctoken { return l.toks[l.i] }
func (l *lexer) peekN(n int) ctoken {
	if l.i+n < len(l.toks) {
		return l.toks[l.i+n]
	}
	return l.toks[len(l.toks)-1]
}
func (l *lexer) next() ctoken { t := l.toks[l.i]; l.i++; return t }
func (l *lexer) isOp(s string) bool {
	t := l.peek()
	return t.kind == "op" && t.text == s
}
func (l *lexer) isIdent(s string) bool {
	t := l.peek()
	return t.kind == "ident" && t.text == s
}
func (l *lexer) accept(s string) bool {
	if l.isOp(s) {
		l.i++
		return true
	}
	return false
}
func (l *lexer) expect(s string) {
	if !l.accept(s) {
		l.fail("expected '" + s + "'")
	}
}
func (l *lexer) fail(msg string) {
	t := l.peek()
	lo := t.pos - 30
	if lo < 0 {
		lo = 0
	}
	hi := t.pos + 30
	if hi > len(l.src) {
		hi = len(l.src)
	}
	panic(parseError{fmt.Sprintf("%s: %s near %q (…%s…)", l.where, msg, t.text, l.src[lo:hi])})
}

type parseError struct{ msg string }

// ---------- parser ----------

var binPrec = map[string]int{
	"<==>": 1, "==>": 2, "||": 3, "&&": 4,
	"==": 5, "!=": 5, "<": 5, "<=": 5, ">": 5, ">=": 5,
	"+": 6, "-": 6, "++": 6,
	"*": 7, "/": 7, "%": 7,
}

func parseExprString(src, where string) (e Expr, err error) {
	defer func() {
		if r := recover(); r != nil {
			if pe, ok := r.(parseError); ok {
				err = fmt.Errorf("%s", pe.msg)
				return
			}
			panic(r)
		}
	}()
	lx, err := lex(src, where)
	if err != nil {
		return nil, err
	}
	e = lx.parseExpr(0)
	if lx.peek().kind != "eof" {
		lx.fail("trailing input")
	}
	return e, nil
}

func (l *lexer) parseExpr(minPrec int) Expr {
	// quantifiers and let extend as far as possible
	if l.isIdent("forall") || l.isIdent("exists") {
		return l.parseQuant()
	}
	if l.isIdent("let") {
		l.next()
		name := l.next().text
		l.expect(":=")
		val := l.parseExpr(0)
		if !l.isIdent("in") {
			l.fail("expected 'in'")
		}
		l.next()
		body := l.parseExpr(0)
		return &ELet{name, val, body}
	}
	x := l.parseUnary()
	for {
		t := l.peek()
		if t.kind != "op" {
			break
		}
		if t.text == "?" && minPrec <= 0 {
			l.next()
			a := l.parseExpr(0)
			l.expect(":")
			b := l.parseExpr(0)
			x = &ECond{x, a, b}
			continue
		}
		p, ok := binPrec[t.text]
		if !ok || p < minPrec {
			break
		}
		l.next()
		var y Expr
		if t.text == "==>" { // right assoc
			y = l.parseExpr(p)
		} else {
			y = l.parseExpr(p + 1)
		}
		x = &EBinary{t.text, x, y}
	}
	return x
}

func (l *lexer) parseQuant() Expr {
	q := &EQuant{Forall: l.next().text == "forall"}
	for {
		name := l.next()
		if name.kind != "ident" {
			l.fail("expected bound variable name")
		}
		ty := l.parseType()
		q.Vars = append(q.Vars, Binder{name.text, ty})
		if !l.accept(",") {
			break
		}
	}
	l.expect("::")
	for l.isOp("{") {
		l.next()
		var trig []Expr
		for {
			trig = append(trig, l.parseExpr(3))
			if !l.accept(",") {
				break
			}
		}
		l.expect("}")
		q.Triggers = append(q.Triggers, trig)
	}
	q.Body = l.parseExpr(0)
	return q
}

func (l *lexer) parseUnary() Expr {
	t := l.peek()
	if t.kind == "op" {
		switch t.text {
		case "!", "-", "*":
			l.next()
			return &EUnary{t.text, l.parseUnary()}
		}
	}
	return l.parsePostfix(l.parsePrimary())
}

var typeArgFuns = map[string]int{"typeis": 1, "unbox": 1, "box": 0, "zero": 0, "implements": 1}

func (l *lexer) parsePrimary() Expr {
	t := l.next()
	switch t.kind {
	case "int":
		v, _ := strconv.ParseInt(t.text, 10, 64)
		return &EInt{v}
	case "str":
		return &EStr{t.text}
	case "ident":
		switch t.text {
		case "true":
			return &EBool{true}
		case "false":
			return &EBool{false}
		case "nil":
			return &ENil{}
		case "forall", "exists":
			l.i--
			return l.parseQuant()
		}
		if l.isOp("(") {
			l.next()
			c := &ECall{Fun: t.text}
			if pos, ok := typeArgFuns[t.text]; ok {
				// the argument at index pos is a type
				idx := 0
				for !l.isOp(")") {
					if idx == pos {
						c.TArgs = append(c.TArgs, l.parseType())
					} else {
						c.Args = append(c.Args, l.parseExpr(0))
					}
					idx++
					if !l.accept(",") {
						break
					}
				}
				l.expect(")")
				return c
			}
			for !l.isOp(")") {
				c.Args = append(c.Args, l.parseExpr(0))
				if !l.accept(",") {
					break
				}
			}
			l.expect(")")
			return c
		}
		return &EIdent{t.text}
	case "op":
		if t.text == "(" {
			e := l.parseExpr(0)
			l.expect(")")
			return e
		}
	}
	l.i--
	l.fail("unexpected token")
	return nil
}

func (l *lexer) parsePostfix(x Expr) Expr {
	for {
		switch {
		case l.isOp("."):
			l.next()
			n := l.next()
			if n.kind != "ident" {
				l.fail("expected field name")
			}
			if id, ok := x.(*EIdent); ok && l.isOp("(") {
				// qualified call: pkg.name(args)
				l.next()
				c := &ECall{Fun: id.Name + "." + n.text}
				for !l.isOp(")") {
					c.Args = append(c.Args, l.parseExpr(0))
					if !l.accept(",") {
						break
					}
				}
				l.expect(")")
				x = c
				continue
			}
			x = &EField{x, n.text}
		case l.isOp("["):
			l.next()
			i := l.parseExpr(0)
			l.expect("]")
			x = &EIndex{x, i}
		default:
			return x
		}
	}
}

func (l *lexer) parseType() *TypeExpr {
	switch {
	case l.accept("*"):
		return &TypeExpr{Kind: "ptr", Args: []*TypeExpr{l.parseType()}}
	case l.isOp("["):
		l.next()
		l.expect("]")
		return &TypeExpr{Kind: "slice", Args: []*TypeExpr{l.parseType()}}
	case l.isIdent("map"):
		l.next()
		l.expect("[")
		k := l.parseType()
		l.expect("]")
		v := l.parseType()
		return &TypeExpr{Kind: "map", Args: []*TypeExpr{k, v}}
	}
	t := l.next()
	if t.kind != "ident" {
		l.i--
		l.fail("expected type")
	}
	te := &TypeExpr{Kind: "name", Name: t.text}
	if l.isOp(".") && l.peekN(1).kind == "ident" {
		l.next()
		te.Pkg = te.Name
		te.Name = l.next().text
	}
	if l.isOp("[") {
		l.next()
		for {
			te.Args = append(te.Args, l.parseType())
			if !l.accept(",") {
				break
			}
		}
		l.expect("]")
	}
	return te
}

// ---------- contract file structure ----------

type Clause struct {
	Assumed  bool // "defines": the clause defines a ghost relation by this function's result; assumed by callers, not proved
	Internal bool // "check": proved at every return with the function's locals in scope, never assumed by callers
	Label string
	Expr  Expr
	Src   string
	Where string
}

type LoopSpec struct {
	Name       string
	Invariants []*Clause
	Decreases  *Clause
	Unroll     bool
	Assigns    []AssignItem
	HasAssigns bool
}

type AssignItem struct {
	Type *TypeExpr
	Kind string // field, deref, elems, global, all, var, anyfield
	X    Expr   // object expression
	Name string // field name / global name
}

type FuncContract struct {
	Key      string // normalised function key
	Pkg      string
	Requires []*Clause
	Ensures  []*Clause
	Assigns  []AssignItem
	HasAssigns bool
	Loops    map[string]*LoopSpec
	Inline   bool
	Pure     bool
	Trusted  bool   // external: assumed, never verified
	AssumedAssigns []AssignItem // frame callers may assume although it is not proved for the body (an explicit assumption)
	HasAssumedAssigns bool
	CallPreserves map[string][]AssignItem // call-site assumptions: callee key -> items the callee is assumed not to write
	Iterates string // this function's only effects besides Assigns are calls of the named callback parameter (or captured variable)
	Callback bool   // contract of a callback parameter: may write any object older than the enclosing function's entry, except Preserves
	Preserves []AssignItem
	ReadsArgs bool  // external: documented not to write its receiver/arguments themselves (callbacks aside)
	Params   []string // explicit parameter names for externals (optional)
	Results  []string
	Where    string
	Note     string
	Like     string // copy the clauses of another contract (same shape, another instantiation)
}

type GhostFunc struct {
	Heap    bool // reads the heap: the components it reads are passed as extra arguments
	Name    string
	Params  []Binder
	Result  *TypeExpr
	Body    Expr // optional recursive definition
	Where   string
	Pkg     string
}

type Macro struct {
	Name   string
	Params []string
	Body   Expr
	Pkg    string
}

type Axiom struct {
	Name  string
	Vars  []Binder
	Expr  Expr
	Src   string
	Pkg   string
	Where string
	// lemma: proved by induction on Induct (if non-empty) or directly
	IsLemma bool
	IsGinv  bool
	Induct  string
	TParams []string
}

type ContractFile struct {
	Pkg     string
	Funcs   []*FuncContract
	Ghosts  []*GhostFunc
	Macros  []*Macro
	Axioms  []*Axiom
	Ginvs   []*Axiom
}

var clauseKeywords = map[string]bool{
	"func": true, "requires": true, "ensures": true, "check": true, "defines": true, "assigns": true, "loop": true,
	"ghost": true, "pred": true, "define": true, "axiom": true, "lemma": true, "inline": true,
	"invariant": true, "decreases": true, "trusted": true, "pure": true, "readsargs": true, "iterates": true, "frame-assumed": true, "assume-preserved": true, "callback": true, "preserves": true, "note": true, "unroll": true, "ginv": true, "like": true, "frame": true,
}

// ParseContractFile reads //@ lines (or all lines if raw is true).
func ParseContractFile(path, pkg string, raw bool) (*ContractFile, error) {
	data, err := os.ReadFile(path)
	if err != nil {
		return nil, err
	}
	type chunk struct {
		kw   string
		text string
		line int
	}
	var chunks []chunk
	for ln, line := range strings.Split(string(data), "\n") {
		s := strings.TrimSpace(line)
		if !raw {
			if !strings.HasPrefix(s, "//@") {
				continue
			}
			s = strings.TrimSpace(s[3:])
		} else {
			if strings.HasPrefix(s, "#") || strings.HasPrefix(s, "//") {
				continue
			}
		}
		if s == "" {
			continue
		}
		// strip trailing comments introduced by " // "
		if i := strings.Index(s, " // "); i >= 0 {
			s = strings.TrimSpace(s[:i])
		}
		first := s
		if i := strings.IndexAny(s, " \t"); i >= 0 {
			first = s[:i]
		}
		if clauseKeywords[first] {
			chunks = append(chunks, chunk{first, strings.TrimSpace(s[len(first):]), ln + 1})
		} else if len(chunks) > 0 {
			chunks[len(chunks)-1].text += " " + s
		} else {
			return nil, fmt.Errorf("%s:%d: text before any clause keyword", path, ln+1)
		}
	}
	cf := &ContractFile{Pkg: pkg}
	var frames map[string][]AssignItem
	var cur *FuncContract
	curLoop := ""
	for _, c := range chunks {
		where := fmt.Sprintf("%s:%d", path, c.line)
		parse := func(src string) (Expr, error) { return parseExprString(src, where) }
		switch c.kw {
		case "func":
			key := strings.TrimSpace(c.text)
			fc := &FuncContract{Key: qualifyKey(pkg, key), Pkg: pkg, Loops: map[string]*LoopSpec{}, Where: where}
			// optional parameter list for externals: func pkg.Name(a, b) (r, err)
			if i := strings.Index(key, "("); i > 0 && !strings.HasPrefix(key, "(") {
				name := strings.TrimSpace(key[:i])
				rest := key[i:]
				fc.Key = qualifyKey(pkg, name)
				ps, rs := splitSig(rest)
				fc.Params, fc.Results = ps, rs
			} else if strings.HasPrefix(key, "(") {
				// method: (recv).Name or (recv).Name(a,b) (r)
				j := strings.Index(key, ")")
				rest := key[j+1:]
				if k := strings.Index(rest, "("); k >= 0 {
					fc.Key = qualifyKey(pkg, strings.TrimSpace(key[:j+1]+rest[:k]))
					ps, rs := splitSig(rest[k:])
					fc.Params, fc.Results = ps, rs
				}
			}
			cf.Funcs = append(cf.Funcs, fc)
			cur = fc
			curLoop = ""
		case "requires", "ensures", "check", "defines":
			if cur == nil {
				return nil, fmt.Errorf("%s: %s outside func", where, c.kw)
			}
			label, text := splitLabel(c.text)
			e, err := parse(text)
			if err != nil {
				return nil, err
			}
			cl := &Clause{Label: label, Expr: e, Src: text, Where: where, Internal: c.kw == "check", Assumed: c.kw == "defines"}
			if c.kw == "requires" {
				cur.Requires = append(cur.Requires, cl)
			} else {
				if cl.Label == "" {
					cl.Label = fmt.Sprintf("e%d", len(cur.Ensures))
				}
				cur.Ensures = append(cur.Ensures, cl)
			}
		case "assigns":
			if cur == nil {
				return nil, fmt.Errorf("%s: assigns outside func", where)
			}
			var items []AssignItem
			var err error
			for _, part := range splitTop(c.text, ',') {
				part = strings.TrimSpace(part)
				if strings.HasPrefix(part, "@") {
					fr, ok := frames[part[1:]]
					if !ok {
						return nil, fmt.Errorf("%s: unknown frame %s", where, part)
					}
					items = append(items, fr...)
					continue
				}
				its, e := parseAssigns(part, where)
				if e != nil {
					err = e
					break
				}
				items = append(items, its...)
			}
			if err != nil {
				return nil, err
			}
			if curLoop != "" {
				cur.Loops[curLoop].HasAssigns = true
				cur.Loops[curLoop].Assigns = append(cur.Loops[curLoop].Assigns, items...)
			} else {
				cur.HasAssigns = true
				cur.Assigns = append(cur.Assigns, items...)
			}
		case "inline":
			if cur == nil {
				return nil, fmt.Errorf("%s: inline outside func", where)
			}
			cur.Inline = true
		case "trusted":
			if cur == nil {
				return nil, fmt.Errorf("%s: trusted outside func", where)
			}
			cur.Trusted = true
		case "readsargs":
			if cur != nil {
				cur.ReadsArgs = true
			}
		case "assume-preserved":
			// assume-preserved <callee key>: items   (an assumption about calls of <callee> made by this function)
			if cur == nil {
				return nil, fmt.Errorf("%s: assume-preserved outside func", where)
			}
			ci := strings.Index(c.text, ":")
			if ci < 0 {
				return nil, fmt.Errorf("%s: assume-preserved needs '<callee>: items'", where)
			}
			callee := qualifyKey(pkg, strings.TrimSpace(c.text[:ci]))
			items, err := parseAssigns(strings.TrimSpace(c.text[ci+1:]), where)
			if err != nil {
				return nil, err
			}
			if cur.CallPreserves == nil {
				cur.CallPreserves = map[string][]AssignItem{}
			}
			cur.CallPreserves[callee] = append(cur.CallPreserves[callee], items...)
		case "frame-assumed":
			if cur == nil {
				return nil, fmt.Errorf("%s: frame-assumed outside func", where)
			}
			cur.HasAssumedAssigns = true
			for _, part := range splitTop(c.text, ',') {
				part = strings.TrimSpace(part)
				if strings.HasPrefix(part, "@") {
					fr, ok := frames[part[1:]]
					if !ok {
						return nil, fmt.Errorf("%s: unknown frame %s", where, part)
					}
					cur.AssumedAssigns = append(cur.AssumedAssigns, fr...)
					continue
				}
				items, err := parseAssigns(part, where)
				if err != nil {
					return nil, err
				}
				cur.AssumedAssigns = append(cur.AssumedAssigns, items...)
			}
		case "iterates":
			if cur == nil {
				return nil, fmt.Errorf("%s: iterates outside func", where)
			}
			cur.Iterates = strings.TrimSpace(c.text)
		case "callback":
			if cur == nil {
				return nil, fmt.Errorf("%s: callback outside func", where)
			}
			cur.Callback = true
		case "preserves":
			if cur == nil {
				return nil, fmt.Errorf("%s: preserves outside func", where)
			}
			for _, part := range splitTop(c.text, ',') {
				part = strings.TrimSpace(part)
				if strings.HasPrefix(part, "@") {
					fr, ok := frames[part[1:]]
					if !ok {
						return nil, fmt.Errorf("%s: unknown frame %s", where, part)
					}
					cur.Preserves = append(cur.Preserves, fr...)
					continue
				}
				items, err := parseAssigns(part, where)
				if err != nil {
					return nil, err
				}
				cur.Preserves = append(cur.Preserves, items...)
			}
		case "pure":
			if cur == nil {
				return nil, fmt.Errorf("%s: pure outside func", where)
			}
			cur.Pure = true
		case "note":
			if cur != nil {
				cur.Note = c.text
			}
		case "frame":
			// frame NAME := assigns-items   (a named assigns list, used as "assigns @NAME")
			i := strings.Index(c.text, ":=")
			if i < 0 {
				return nil, fmt.Errorf("%s: frame needs 'NAME := items'", where)
			}
			var items []AssignItem
			for _, part := range splitTop(strings.TrimSpace(c.text[i+2:]), ',') {
				part = strings.TrimSpace(part)
				if strings.HasPrefix(part, "@") {
					fr, ok := frames[part[1:]]
					if !ok {
						return nil, fmt.Errorf("%s: unknown frame %s", where, part)
					}
					items = append(items, fr...)
					continue
				}
				its, err := parseAssigns(part, where)
				if err != nil {
					return nil, err
				}
				items = append(items, its...)
			}
			if frames == nil {
				frames = map[string][]AssignItem{}
			}
			frames[strings.TrimSpace(c.text[:i])] = items
			cur = nil
		case "like":
			if cur == nil {
				return nil, fmt.Errorf("%s: like outside func", where)
			}
			cur.Like = qualifyKey(pkg, strings.TrimSpace(c.text))
		case "loop":
			if cur == nil {
				return nil, fmt.Errorf("%s: loop outside func", where)
			}
			fields := strings.Fields(c.text)
			if len(fields) == 0 {
				return nil, fmt.Errorf("%s: loop needs an ordinal", where)
			}
			n := fields[0]
			curLoop = n
			if cur.Loops[n] == nil {
				cur.Loops[n] = &LoopSpec{Name: n}
			}
			rest := strings.TrimSpace(strings.TrimPrefix(strings.TrimSpace(c.text), fields[0]))
			if rest != "" {
				// inline form: loop N invariant E / loop N decreases E / loop N unroll
				kw := strings.Fields(rest)[0]
				body := strings.TrimSpace(rest[len(kw):])
				if err := addLoopClause(cur.Loops[n], kw, body, where); err != nil {
					return nil, err
				}
			}
		case "invariant", "decreases", "unroll":
			if cur == nil || curLoop == "" {
				return nil, fmt.Errorf("%s: %s outside loop", where, c.kw)
			}
			if err := addLoopClause(cur.Loops[curLoop], c.kw, c.text, where); err != nil {
				return nil, err
			}
		case "ghost":
			g, err := parseGhost(c.text, where, pkg)
			if err != nil {
				return nil, err
			}
			cf.Ghosts = append(cf.Ghosts, g)
			cur = nil
		case "pred", "define":
			m, err := parseMacro(c.text, where, pkg)
			if err != nil {
				return nil, err
			}
			cf.Macros = append(cf.Macros, m)
			cur = nil
		case "axiom", "lemma":
			a, err := parseAxiom(c.text, where, pkg, c.kw == "lemma")
			if err != nil {
				return nil, err
			}
			cf.Axioms = append(cf.Axioms, a)
			cur = nil
		case "ginv":
			a, err := parseAxiom(c.text, where, pkg, false)
			if err != nil {
				return nil, err
			}
			a.IsGinv = true
			cf.Ginvs = append(cf.Ginvs, a)
			cur = nil
		}
	}
	return cf, nil
}

func addLoopClause(ls *LoopSpec, kw, body, where string) error {
	switch kw {
	case "invariant":
		label, text := splitLabel(body)
		e, err := parseExprString(text, where)
		if err != nil {
			return err
		}
		if label == "" {
			label = fmt.Sprintf("i%d", len(ls.Invariants))
		}
		ls.Invariants = append(ls.Invariants, &Clause{Label: label, Expr: e, Src: text, Where: where})
	case "decreases":
		e, err := parseExprString(body, where)
		if err != nil {
			return err
		}
		ls.Decreases = &Clause{Label: "dec", Expr: e, Src: body, Where: where}
	case "unroll":
		ls.Unroll = true
	case "assigns":
		items, err := parseAssigns(body, where)
		if err != nil {
			return err
		}
		ls.HasAssigns = true
		ls.Assigns = append(ls.Assigns, items...)
	default:
		return fmt.Errorf("%s: unknown loop clause %q", where, kw)
	}
	return nil
}

func splitSig(s string) (params, results []string) {
	// "(a, b) (r, err)" -> names
	s = strings.TrimSpace(s)
	depth := 0
	end := -1
	for i, c := range s {
		if c == '(' {
			depth++
		} else if c == ')' {
			depth--
			if depth == 0 {
				end = i
				break
			}
		}
	}
	if end < 0 {
		return nil, nil
	}
	split := func(x string) []string {
		var out []string
		for _, p := range strings.Split(x, ",") {
			p = strings.TrimSpace(p)
			if p != "" {
				out = append(out, strings.Fields(p)[0])
			}
		}
		return out
	}
	params = split(s[1:end])
	rest := strings.TrimSpace(s[end+1:])
	if strings.HasPrefix(rest, "(") && strings.HasSuffix(rest, ")") {
		results = split(rest[1 : len(rest)-1])
	} else if rest != "" {
		results = split(rest)
	}
	return
}

func splitLabel(s string) (string, string) {
	s = strings.TrimSpace(s)
	if strings.HasPrefix(s, "[") {
		if i := strings.Index(s, "]"); i > 0 {
			lab := s[1:i]
			ok := lab != ""
			for _, r := range lab {
				if !(unicode.IsLetter(r) || unicode.IsDigit(r) || r == '_' || r == '-') {
					ok = false
				}
			}
			if ok {
				return lab, strings.TrimSpace(s[i+1:])
			}
		}
	}
	return "", s
}

func qualifyKey(pkg, key string) string {
	key = strings.ReplaceAll(key, " ", "")
	if pkg == "" {
		return key
	}
	// already qualified? (contains a dot before any '(' for functions, or "(*pkg.T)")
	if strings.HasPrefix(key, "(") {
		inner := key[1:strings.Index(key, ")")]
		rest := key[strings.Index(key, ")")+1:]
		star := ""
		if strings.HasPrefix(inner, "*") {
			star = "*"
			inner = inner[1:]
		}
		if !strings.Contains(inner, ".") {
			inner = pkg + "." + inner
		}
		return "(" + star + inner + ")" + rest
	}
	base := key
	if i := strings.Index(base, "$"); i >= 0 {
		base = base[:i]
	}
	if i := strings.Index(base, "["); i >= 0 {
		base = base[:i]
	}
	if strings.Contains(base, ".") {
		return key
	}
	return pkg + "." + key
}

func parseAssigns(text, where string) ([]AssignItem, error) {
	text = strings.TrimSpace(text)
	if text == "nothing" {
		return nil, nil
	}
	if text == "everything" {
		return []AssignItem{{Kind: "all"}}, nil
	}
	var items []AssignItem
	for _, part := range splitTop(text, ',') {
		part = strings.TrimSpace(part)
		switch {
		case strings.HasPrefix(part, "reach(") && strings.HasSuffix(part, ")"):
			e, err := parseExprString(part[6:len(part)-1], where)
			if err != nil {
				return nil, err
			}
			items = append(items, AssignItem{Kind: "reach", X: e})
		case strings.HasPrefix(part, "callback(") && strings.HasSuffix(part, ")"):
			items = append(items, AssignItem{Kind: "callback", Name: strings.TrimSpace(part[9 : len(part)-1])})
		case strings.HasPrefix(part, "all(") && strings.HasSuffix(part, ")"):
			// all(T): every object of type T (a whole heap component)
			lx, err := lex(part[4:len(part)-1], where)
			if err != nil {
				return nil, err
			}
			var te *TypeExpr
			func() {
				defer func() {
					if r := recover(); r != nil {
						err = fmt.Errorf("%s: bad type in %q", where, part)
					}
				}()
				te = lx.parseType()
			}()
			if err != nil {
				return nil, err
			}
			items = append(items, AssignItem{Kind: "allof", Type: te})
		case strings.HasPrefix(part, "any("):
			// any(*T).f : field f of every object of type T
			j := strings.Index(part, ").")
			if j < 0 {
				return nil, fmt.Errorf("%s: assigns item %q: want any(*T).field", where, part)
			}
			lx, err := lex(part[4:j], where)
			if err != nil {
				return nil, err
			}
			var te *TypeExpr
			func() {
				defer func() {
					if r := recover(); r != nil {
						err = fmt.Errorf("%s: bad type in %q", where, part)
					}
				}()
				te = lx.parseType()
			}()
			if err != nil {
				return nil, err
			}
			items = append(items, AssignItem{Kind: "anyfield", Type: te, Name: strings.TrimSpace(part[j+2:])})
		case strings.HasPrefix(part, "ghost ") && strings.HasSuffix(part, "]"):
			// ghost name[idx]: one cell of a ghost state component
			rest := strings.TrimSpace(part[6:])
			j := strings.Index(rest, "[")
			if j < 0 {
				return nil, fmt.Errorf("%s: assigns item %q: want ghost name[index]", where, part)
			}
			e, err := parseExprString(rest[j+1:len(rest)-1], where)
			if err != nil {
				return nil, err
			}
			items = append(items, AssignItem{Kind: "gstate", Name: strings.TrimSpace(rest[:j]), X: e})
		case strings.HasPrefix(part, "global "):
			items = append(items, AssignItem{Kind: "global", Name: strings.TrimSpace(part[7:])})
		case strings.HasSuffix(part, "[..]"):
			e, err := parseExprString(part[:len(part)-4], where)
			if err != nil {
				return nil, err
			}
			items = append(items, AssignItem{Kind: "elems", X: e})
		case strings.HasPrefix(part, "*"):
			e, err := parseExprString(part[1:], where)
			if err != nil {
				return nil, err
			}
			items = append(items, AssignItem{Kind: "deref", X: e})
		default:
			e, err := parseExprString(part, where)
			if err != nil {
				return nil, err
			}
			if id, isId := e.(*EIdent); isId {
				// a captured (heap-allocated) local variable itself
				items = append(items, AssignItem{Kind: "var", Name: id.Name})
				continue
			}
			f, ok := e.(*EField)
			if !ok {
				return nil, fmt.Errorf("%s: assigns item %q must be x.f, *x, x[..], a captured variable or 'global name'", where, part)
			}
			items = append(items, AssignItem{Kind: "field", X: f.X, Name: f.Name})
		}
	}
	return items, nil
}

func splitTop(s string, sep rune) []string {
	var out []string
	depth := 0
	start := 0
	for i, c := range s {
		switch c {
		case '(', '[', '{':
			depth++
		case ')', ']', '}':
			depth--
		default:
			if c == sep && depth == 0 {
				out = append(out, s[start:i])
				start = i + 1
			}
		}
	}
	out = append(out, s[start:])
	return out
}

// ghost func name(a T, b U) R [:= body]
func parseGhost(text, where, pkg string) (g *GhostFunc, err error) {
	defer func() {
		if r := recover(); r != nil {
			if pe, ok := r.(parseError); ok {
				err = fmt.Errorf("%s", pe.msg)
				return
			}
			panic(r)
		}
	}()
	text = strings.TrimSpace(text)
	heap := false
	if strings.HasPrefix(text, "heap ") {
		heap = true
		text = strings.TrimSpace(text[5:])
	}
	text = strings.TrimSpace(strings.TrimPrefix(text, "func"))
	lx, err := lex(text, where)
	if err != nil {
		return nil, err
	}
	g = &GhostFunc{Where: where, Pkg: pkg, Heap: heap}
	g.Name = lx.next().text
	lx.expect("(")
	for !lx.isOp(")") {
		n := lx.next().text
		ty := lx.parseType()
		g.Params = append(g.Params, Binder{n, ty})
		if !lx.accept(",") {
			break
		}
	}
	lx.expect(")")
	g.Result = lx.parseType()
	if lx.accept(":=") {
		g.Body = lx.parseExpr(0)
	}
	if lx.peek().kind != "eof" {
		lx.fail("trailing input in ghost func")
	}
	return g, nil
}

// pred name(a, b) := body
func parseMacro(text, where, pkg string) (m *Macro, err error) {
	defer func() {
		if r := recover(); r != nil {
			if pe, ok := r.(parseError); ok {
				err = fmt.Errorf("%s", pe.msg)
				return
			}
			panic(r)
		}
	}()
	lx, err := lex(text, where)
	if err != nil {
		return nil, err
	}
	m = &Macro{Pkg: pkg}
	m.Name = lx.next().text
	if lx.accept("(") {
		for !lx.isOp(")") {
			m.Params = append(m.Params, lx.next().text)
			// optional type annotation (ignored)
			if !lx.isOp(",") && !lx.isOp(")") {
				lx.parseType()
			}
			if !lx.accept(",") {
				break
			}
		}
		lx.expect(")")
	}
	lx.expect(":=")
	m.Body = lx.parseExpr(0)
	if lx.peek().kind != "eof" {
		lx.fail("trailing input in pred/define")
	}
	return m, nil
}

// axiom name: expr          lemma name [induction n]: forall ... :: expr
func parseAxiom(text, where, pkg string, lemma bool) (*Axiom, error) {
	i := strings.Index(text, ":")
	if i < 0 {
		return nil, fmt.Errorf("%s: axiom/lemma needs 'name: expr'", where)
	}
	head := strings.Fields(text[:i])
	if len(head) == 0 {
		return nil, fmt.Errorf("%s: axiom/lemma needs a name", where)
	}
	a := &Axiom{Name: head[0], Pkg: pkg, IsLemma: lemma, Where: where, Src: strings.TrimSpace(text[i+1:])}
	for j := 1; j < len(head); j++ {
		if head[j] == "induction" && j+1 < len(head) {
			a.Induct = head[j+1]
		}
	}
	e, err := parseExprString(a.Src, where)
	if err != nil {
		return nil, err
	}
	a.Expr = e
	return a, nil
}
