package main

// Calls: builtins, inlining, contracts, externals, unknown calls; returns.

import (
	"os"
	"fmt"
	"go/types"
	"strings"

	"golang.org/x/tools/go/ssa"
)

// execCall returns true if execution continues with the next instruction of
// the block, false if the callee was inlined (its return continues the block).
func (run *FuncRun) execCall(st *State, in *ssa.Call, b *ssa.BasicBlock, idx int) bool {
	c := in.Common()
	if c.IsInvoke() {
		recv := run.term(st, c.Value)
		args := []Val{recv}
		for _, a := range c.Args {
			args = append(args, run.val(st, a))
		}
		run.addObligation(st, "nil", "invoke", Neq(recv, NilAny), "method call on nil interface", run.posOf(in))
		st.Assume(Neq(recv, NilAny))
		// dispatch on a statically known dynamic type first
		if fn := run.eng.resolveInvoke(run, st, recv, c); fn != nil {
			if mode, _ := run.eng.callMode(fn); mode != "unknown" {
				return run.callFunction(st, in, b, idx, fn, nil, run.invokeArgs(st, fn, recv, args[1:]))
			}
		}
		fc := run.eng.ifaceContract(c)
		if fc == nil {
			if fn := run.eng.resolveInvoke(run, st, recv, c); fn != nil {
				return run.callFunction(st, in, b, idx, fn, nil, run.invokeArgs(st, fn, recv, args[1:]))
			}
			run.unknownCall(st, in, "interface method "+run.eng.reg.TypeKey(c.Value.Type())+"."+c.Method.Name())
			return true
		}
		run.usedContracts[fc.Key] = true
		res := run.applyContract(st, fc, c.Method.Type().(*types.Signature), c.Value.Type(), args, in, nil)
		run.set(st, in, res)
		return true
	}
	if bi, ok := c.Value.(*ssa.Builtin); ok {
		var args []Val
		for _, a := range c.Args {
			args = append(args, run.val(st, a))
		}
		run.set(st, in, run.execBuiltin(st, bi, c, args, in))
		return true
	}
	var args []Val
	for _, a := range c.Args {
		args = append(args, run.val(st, a))
	}
	fv := run.val(st, c.Value)
	switch f := fv.(type) {
	case *FuncVal:
		return run.callFunction(st, in, b, idx, f.Fn, nil, args)
	case *Closure:
		run.pendingSrc = f.Src
		return run.callFunction(st, in, b, idx, f.Fn, f.Bindings, args)
	}
	// dynamic call of an unknown function value
	if cb := run.eng.callbackContractOfValue(c.Value); cb != nil && cb.Callback {
		run.usedContracts[cb.Key] = true
		run.set(st, in, run.callCallback(st, cb, c.Signature(), args, in))
		return true
	}
	if fc := run.eng.funcValueContract(run, c.Value); fc != nil {
		res := run.applyContract(st, fc, c.Signature(), nil, args, in, nil)
		run.set(st, in, res)
		return true
	}
	run.unknownCall(st, in, "function value "+c.Value.Name())
	return true
}

func (run *FuncRun) invokeArgs(st *State, fn *ssa.Function, recv Term, rest []Val) []Val {
	// unbox the receiver to the method's receiver type
	rt := fn.Signature.Recv().Type()
	return append([]Val{run.eng.reg.Unbox(rt, recv)}, rest...)
}

func (run *FuncRun) unknownCall(st *State, in *ssa.Call, what string) {
	run.unknownCalls[what] = true
	c := in.Common()
	for _, a := range c.Args {
		switch x := run.val(st, a).(type) {
		case Term:
			st.escape(x.S)
		case *Closure:
			run.funcTerm(st, x)
		case *LVal:
			st.escape(x.Ref.S)
		}
	}
	if c.IsInvoke() {
		if t, ok := run.val(st, c.Value).(Term); ok {
			st.escape(t.S)
		}
	}
	st.HavocAll("call of " + what)
	run.set(st, in, run.freshResults(st, in.Common().Signature().Results(), "res"))
}

func (run *FuncRun) freshResults(st *State, res *types.Tuple, prefix string) Val {
	switch res.Len() {
	case 0:
		return Tuple{}
	case 1:
		t := st.Fresh(prefix, run.eng.reg.SortOf(res.At(0).Type()))
		st.assumeWellTyped(t, res.At(0).Type())
		return t
	}
	var tup Tuple
	for i := 0; i < res.Len(); i++ {
		t := st.Fresh(prefix, run.eng.reg.SortOf(res.At(i).Type()))
		st.assumeWellTyped(t, res.At(i).Type())
		tup = append(tup, t)
	}
	return tup
}

func (run *FuncRun) callFunction(st *State, in *ssa.Call, b *ssa.BasicBlock, idx int, fn *ssa.Function, bindings []Val, args []Val) bool {
	mode, fc := run.eng.callMode(fn)
	switch mode {
	case "skip":
		run.set(st, in, Tuple{})
		return true
	case "inline":
		if st.frame.depth > 8 {
			fail("%s: inlining too deep at %s", run.key, run.eng.funcKey(fn))
		}
		if len(fn.Blocks) == 0 {
			fail("%s: cannot inline %s (no body)", run.key, run.eng.funcKey(fn))
		}
		fr := &Frame{fn: fn, regs: map[ssa.Value]Val{}, locals: map[*ssa.Alloc]Val{}, openLoops: map[int]bool{}, iters: map[int]*RangeIter{},
			loopEntry: map[int]*Snapshot{}, loopAssign: map[int]*assignSet{}, loopLocals: map[int]map[*ssa.Alloc]Val{}, decAt: map[int]Term{}, parent: st.frame, retInstr: in, retBlock: b, retIdx: idx + 1, depth: st.frame.depth + 1}
		fr.inlineTag = run.inlineTag(st, fn)
		for i, p := range fn.Params {
			fr.regs[p] = args[i]
		}
		for i, fv := range fn.FreeVars {
			fr.regs[fv] = bindings[i]
		}
		st.frame = fr
		run.execBlock(st, fn.Blocks[0], 0)
		return false
	case "contract", "external":
		if mode == "external" {
			run.usedExternals[fc.Key] = true
		} else {
			run.usedContracts[fc.Key] = true
		}
		var recvT types.Type
		run.pendingBindings = bindings
		res := run.applyContract(st, fc, fn.Signature, recvT, args, in, fn)
		run.set(st, in, res)
		return true
	}
	run.unknownCall(st, in, run.eng.funcKey(fn))
	return true
}

// inlineTag names an inlined frame for loop-invariant lookup: the callee's
// short name, with #n for the n-th inlined call of that callee on this path.
func (run *FuncRun) inlineTag(st *State, fn *ssa.Function) string {
	if fn.Synthetic != "" && !strings.HasPrefix(fn.Synthetic, "instance of") {
		return st.frame.inlineTag // compiler-generated wrapper: transparent
	}
	name := fn.Name()
	if o := fn.Origin(); o != nil {
		name = o.Name()
	}
	if st.frame.inlineTag != "" {
		name = st.frame.inlineTag + "/" + name
	}
	return name
}

func (run *FuncRun) doReturn(st *State, in *ssa.Return) {
	fr := st.frame
	var res Val
	switch len(in.Results) {
	case 0:
		res = Tuple{}
	case 1:
		res = run.val(st, in.Results[0])
	default:
		var tup Tuple
		for _, r := range in.Results {
			tup = append(tup, run.val(st, r))
		}
		res = tup
	}
	if fr.parent != nil {
		// return from an inlined call
		call := fr.retInstr.(*ssa.Call)
		st.frame = fr.parent
		st.frame.regs[call] = res
		run.execBlock(st, fr.retBlock, fr.retIdx)
		return
	}
	run.checkPost(st, res, in)
}

// checkPost generates the postcondition and frame obligations at a return.
func (run *FuncRun) checkPost(st *State, res Val, in *ssa.Return) {
	fc := run.contract
	if run.fn.Synthetic == "package initializer" {
		// a package initialiser establishes the package's global invariants
		pkg := run.eng.pkgOfFunc(run.fn)
		for _, gi := range run.eng.ginvs {
			if gi.Pkg != pkg {
				continue
			}
			env := run.contractEnv(st, run.entry, nil)
			env.pkg = gi.Pkg
			goals := env.proveGoals(gi.Expr)
			run.addGoals(st, "post", "ginv."+gi.Name, goals, gi.Src, gi.Where)
		}
		return
	}
	if fc == nil {
		return
	}
	env := run.contractEnv(st, run.entry, nil)
	run.bindResults(env, run.fn.Signature, res, fc)
	for _, cl := range fc.Ensures {
		if run.cone != nil && !run.cone[cl.Label] && !run.cone["*"] {
			continue
		}
		if cl.Assumed {
			run.note("clause [%s] of %s defines a ghost relation and is assumed, not proved", cl.Label, fc.Key)
			continue
		}
		cenv := env
		if cl.Internal {
			cenv = env.clone()
			cenv.frame = st.frame
		}
		goals, skipped := safeGoals(cenv, cl)
		if cl.Internal {
			if skipped {
				run.checkSkip[cl.Label]++
			} else {
				run.checkSeen[cl.Label]++
			}
		}
		if skipped {
			continue // a check clause about locals that do not exist on this path
		}
		run.addGoals(st, "post", cl.Label, goals, cl.Src, cl.Where)
	}
	if fc.HasAssigns {
		run.checkFrame(st, env, fc)
	}
	if fc.Pure {
		// a pure function neither writes nor allocates
		run.addObligation(st, "frame", "alloc", Eq(st.alloc, run.entry.alloc), "pure function does not allocate", fc.Where)
	}
}

func (run *FuncRun) bindResults(env *CEnv, sig *types.Signature, res Val, fc *FuncContract) {
	results := sig.Results()
	var vals []Val
	if t, ok := res.(Tuple); ok {
		vals = t
	} else {
		vals = []Val{res}
	}
	for i := 0; i < results.Len() && i < len(vals); i++ {
		t, ok := vals[i].(Term)
		if !ok {
			continue
		}
		cv := CVal{T: t, Type: results.At(i).Type()}
		if n := results.At(i).Name(); n != "" && n != "_" {
			env.vars[n] = cv
		}
		if fc != nil && i < len(fc.Results) {
			env.vars[fc.Results[i]] = cv
		}
		env.vars[fmt.Sprintf("ret%d", i)] = cv
		if i == 0 {
			env.vars["ret"] = cv
		}
		if i == results.Len()-1 && isErrorType(results.At(i).Type()) {
			if _, taken := env.vars["err"]; !taken {
				env.vars["err"] = cv
			}
		}
	}
}

func isErrorType(t types.Type) bool {
	n, ok := t.(*types.Named)
	return ok && n.Obj().Pkg() == nil && n.Obj().Name() == "error"
}

// ---------- frames ----------

type assignSet struct {
	whole  map[string][]Term            // component -> refs whose whole content may change
	fields map[string]map[string][]int  // component -> ref term text -> assigned field indexes
	frefs  map[string]map[string]Term
	comps  map[string]Sort
	all    bool
	globals map[string]bool
	anyFields map[string]map[int]bool // component -> fields assignable in every object
	wholeComps map[string]bool        // components in which every object may change
	onlyRefs []Term     // reach(x) with x private: any component may change, but only at these objects
	allBelow *Term      // callback effect: every object older than this allocation mark may change ...
	keep     *assignSet // ... except these
	keepRefs []Term     // ... and these objects, in every component (objects private to the caller)
}

func newAssignSet() *assignSet {
	return &assignSet{whole: map[string][]Term{}, fields: map[string]map[string][]int{}, frefs: map[string]map[string]Term{}, comps: map[string]Sort{}, globals: map[string]bool{}, anyFields: map[string]map[int]bool{}, wholeComps: map[string]bool{}}
}

// assignSetOf evaluates the assigns clause in the pre-state.
func (env *CEnv) assignSetOf(fc *FuncContract) *assignSet {
	return env.assignSetOfItems(fc.Assigns, fc.Where)
}

func (env *CEnv) assignSetOfItems(items []AssignItem, where string) *assignSet {
	as := newAssignSet()
	reg := env.run.eng.reg
	fc := &FuncContract{Where: where}
	for _, it := range items {
		switch it.Kind {
		case "all":
			as.all = true
		case "allof":
			ty := env.run.eng.resolveType(it.Type, env.pkg, env.tsubst)
			switch u := under(ty).(type) {
			case *types.Pointer:
				so := reg.SortOf(u.Elem())
				comp := compCell(so)
				if _, isS := under(u.Elem()).(*types.Struct); isS {
					comp = compStruct(so)
				}
				as.comps[comp] = ArrSort(SInt, so)
				as.wholeComps[comp] = true
			case *types.Map:
				mc := env.run.mapComps(u)
				for _, p := range []struct {
					n string
					s Sort
				}{{mc.Dom, mc.DomS}, {mc.Val, mc.ValS}, {mc.Card, mc.CardS}} {
					as.comps[p.n] = p.s
					as.wholeComps[p.n] = true
				}
			case *types.Slice:
				es := reg.SortOf(u.Elem())
				comp := compArr(es)
				as.comps[comp] = ArrSort(SInt, ArrSort(SInt, es))
				as.wholeComps[comp] = true
			default:
				fail("%s: assigns all(T): T must be a pointer, map or slice type", fc.Where)
			}
		case "anyfield":
			ty := env.run.eng.resolveType(it.Type, env.pkg, env.tsubst)
			pt, ok := ty.Underlying().(*types.Pointer)
			if !ok {
				fail("%s: assigns any(T).f: T must be a pointer to struct", fc.Where)
			}
			so := reg.SortOf(pt.Elem())
			fi := reg.FieldIndex(so, it.Name)
			if fi < 0 {
				fail("%s: assigns: no field %s in %s", fc.Where, it.Name, so)
			}
			comp := compStruct(so)
			as.comps[comp] = ArrSort(SInt, so)
			if as.anyFields[comp] == nil {
				as.anyFields[comp] = map[int]bool{}
			}
			as.anyFields[comp][fi] = true
		case "reach":
			x := env.eval(it.X)
			refs, ok := []string(nil), false
			if env.st != nil {
				refs, ok = env.st.reachPrivate(x.T.S)
			}
			if !ok {
				if os.Getenv("GOWP_DEBUG_REACH") != "" {
					fmt.Fprintf(os.Stderr, "reach(%s): not private/closed: %s refs=%v\n", it.X, x.T.S, env.st.refsIn(x.T.S))
				}
				as.all = true
				break
			}
			if as.onlyRefs == nil {
				as.onlyRefs = []Term{}
			}
			for _, r := range refs {
				as.onlyRefs = append(as.onlyRefs, Term{r, SInt})
			}
		case "callback":
			var cb *FuncContract
			for f := env.run.fn; f != nil && cb == nil; f = f.Parent() {
				cb = env.run.eng.contracts[env.run.eng.originKey(f)+"#"+it.Name]
			}
			if cb == nil || !cb.Callback {
				fail("%s: assigns callback(%s): no callback contract for %s", fc.Where, it.Name, it.Name)
			}
			mark := env.run.entry.alloc
			as.allBelow = &mark
			as.keep = env.assignSetOfItems(cb.Preserves, cb.Where)
		case "gstate":
			x := env.eval(it.X)
			comp := "Ghost:" + it.Name
			as.comps[comp] = ArrSort(SInt, SInt)
			as.whole[comp] = append(as.whole[comp], x.T)
		case "global":
			as.globals[it.Name] = true
		case "var":
			ref, elem, ok := env.heapLocalRef(it.Name)
			if !ok {
				fail("%s: assigns %s: not a captured (heap) local variable", fc.Where, it.Name)
			}
			so := reg.SortOf(elem)
			comp := compCell(so)
			if _, isS := under(elem).(*types.Struct); isS {
				comp = compStruct(so)
			}
			as.comps[comp] = ArrSort(SInt, so)
			as.whole[comp] = append(as.whole[comp], ref)
		case "field":
			x := env.eval(it.X)
			pt, ok := under(x.Type).(*types.Pointer)
			if !ok {
				fail("%s: assigns %s: not a pointer to struct", fc.Where, it.Name)
			}
			so := reg.SortOf(pt.Elem())
			fi := reg.FieldIndex(so, it.Name)
			if fi < 0 {
				fail("%s: assigns: no field %s in %s", fc.Where, it.Name, so)
			}
			comp := compStruct(so)
			as.comps[comp] = ArrSort(SInt, so)
			if as.fields[comp] == nil {
				as.fields[comp] = map[string][]int{}
				as.frefs[comp] = map[string]Term{}
			}
			as.fields[comp][x.T.S] = append(as.fields[comp][x.T.S], fi)
			as.frefs[comp][x.T.S] = x.T
		case "deref":
			x := env.eval(it.X)
			switch u := under(x.Type).(type) {
			case *types.Pointer:
				so := reg.SortOf(u.Elem())
				var comp string
				if _, isS := under(u.Elem()).(*types.Struct); isS {
					comp = compStruct(so)
				} else {
					comp = compCell(so)
				}
				as.comps[comp] = ArrSort(SInt, so)
				as.whole[comp] = append(as.whole[comp], x.T)
			case *types.Map:
				mc := env.run.mapComps(u)
				for _, p := range []struct {
					n string
					s Sort
				}{{mc.Dom, mc.DomS}, {mc.Val, mc.ValS}, {mc.Card, mc.CardS}} {
					as.comps[p.n] = p.s
					as.whole[p.n] = append(as.whole[p.n], x.T)
				}
			default:
				fail("%s: assigns *x: x must be a pointer or map, got %s", fc.Where, x.Type)
			}
		case "elems":
			x := env.eval(it.X)
			sl, ok := under(x.Type).(*types.Slice)
			if !ok {
				fail("%s: assigns x[..]: x must be a slice, got %s", fc.Where, x.Type)
			}
			es := reg.SortOf(sl.Elem())
			comp := compArr(es)
			as.comps[comp] = ArrSort(SInt, ArrSort(SInt, es))
			as.whole[comp] = append(as.whole[comp], SliceArr(x.T))
		}
	}
	return as
}

func (env *CEnv) assignComps(fc *FuncContract) (m map[string]Sort, ok bool) {
	defer func() {
		if r := recover(); r != nil {
			if _, isEE := r.(engineError); isEE {
				ok = false
				return
			}
			panic(r)
		}
	}()
	as := env.assignSetOf(fc)
	if as.all {
		return nil, false
	}
	return as.comps, true
}

// checkFrame: every pre-existing location outside the assigns clause is unchanged.
func (run *FuncRun) checkFrame(st *State, env *CEnv, fc *FuncContract) {
	pre := env.oldEnv()
	pre.frame = nil
	as := pre.assignSetOf(fc)
	for _, f := range pre.takeFacts() {
		st.Assume(f)
	}
	base := run.entry
	if st.frameBase != nil {
		base = st.frameBase
	}
	run.checkFrameAgainst(st, base, as, "frame", fc.Where)
}

// checkFrameAgainst compares the current heap with a snapshot.
func (run *FuncRun) checkFrameAgainst(st *State, base *Snapshot, as *assignSet, kind, where string) {
	if as.all {
		return
	}
	fc := &FuncContract{Where: where}
	reg := run.eng.reg
	for _, name := range sortedKeys(run.compSorts) {
		so := run.compSorts[name]
		cur := st.H(name, so)
		init := base.H(run, st.script, name, so)
		if cur.S == init.S {
			continue
		}
		if strings.HasPrefix(name, "G:") {
			if as.globals[strings.TrimPrefix(name, "G:")] || as.allBelow != nil {
				continue
			}
			run.addObligation(st, kind, name, Eq(cur, init), "package-level variable "+name+" unchanged", fc.Where)
			continue
		}
		if as.wholeComps[name] {
			continue
		}
		r := run.freshName("fr")
		decl := "(declare-const " + r + " Int)"
		rt := Term{r, SInt}
		hyps := []Term{Ge(rt, IntLit(0)), Lt(rt, base.alloc)}
		if as.allBelow != nil && !(as.keep != nil && as.keep.wholeComps[name]) {
			alts := []Term{Ge(rt, *as.allBelow)}
			if as.keep != nil {
				for _, w := range as.keep.whole[name] {
					alts = append(alts, Eq(rt, w))
				}
			}
			hyps = append(hyps, Or(alts...))
		}
		for _, w := range as.whole[name] {
			hyps = append(hyps, Neq(rt, w))
		}
		_, elemSort := so.arrayParts()
		if si := reg.Struct(elemSort); si != nil && len(as.anyFields[name]) > 0 {
			var goals []Goal
			for fi := range si.Fields {
				if as.anyFields[name][fi] {
					continue
				}
				h := append([]Term(nil), hyps...)
				for refText, fis := range as.fields[name] {
					for _, x := range fis {
						if x == fi {
							h = append(h, Neq(rt, as.frefs[name][refText]))
						}
					}
				}
				goals = append(goals, Goal{Decls: []string{decl}, Hyps: h, Goal: Eq(reg.FieldGet(Select(cur, rt), fi), reg.FieldGet(Select(init, rt), fi))})
			}
			run.addGoals(st, kind, name, goals, "only the named field of objects in "+name+" changes", fc.Where)
			continue
		}
		if si := reg.Struct(elemSort); si != nil && len(as.fields[name]) > 0 {
			var goals []Goal
			for fi, f := range si.Fields {
				h := append([]Term(nil), hyps...)
				for refText, fis := range as.fields[name] {
					for _, x := range fis {
						if x == fi {
							h = append(h, Neq(rt, as.frefs[name][refText]))
						}
					}
				}
				goals = append(goals, Goal{Decls: []string{decl}, Hyps: h, Goal: Eq(reg.FieldGet(Select(cur, rt), fi), reg.FieldGet(Select(init, rt), fi))})
				_ = f
			}
			run.addGoals(st, kind, name, goals, "only assigned fields of "+name+" change", fc.Where)
			continue
		}
		run.addGoals(st, kind, name, []Goal{{Decls: []string{decl}, Hyps: hyps, Goal: Eq(Select(cur, rt), Select(init, rt))}}, "locations of "+name+" outside the assigns clause unchanged", fc.Where)
	}
}

// ---------- applying a contract at a call site ----------

func (run *FuncRun) applyContract(st *State, fc *FuncContract, sig *types.Signature, recvIface types.Type, args []Val, in ssa.Instruction, callee *ssa.Function) Val {
	eng := run.eng
	pre := st.Snap()
	env := &CEnv{run: run, st: st, cur: st, old: pre, vars: map[string]CVal{}, pkg: fc.Pkg}
	if callee != nil {
		env.tsubst = eng.typeSubstFor(callee)
	}
	// captured variables of a closure called through its contract
	if callee != nil && len(callee.FreeVars) > 0 && len(run.pendingBindings) == len(callee.FreeVars) {
		for i, fv := range callee.FreeVars {
			if t, ok := run.pendingBindings[i].(Term); ok {
				env.vars["&"+fv.Name()] = CVal{T: t, Type: fv.Type()}
			}
		}
	}
	bindings, srcBindings := run.pendingBindings, run.pendingSrc
	run.pendingBindings, run.pendingSrc = nil, nil
	// bind parameters
	names, ptypes := eng.paramNames(fc, sig, recvIface, callee)
	if len(names) != len(args) {
		fail("%s: contract %s: %d parameter names for %d arguments", run.key, fc.Key, len(names), len(args))
	}
	type copyBack struct {
		lv   *LVal
		cell Term
	}
	var copies []copyBack
	for i, a := range args {
		var t Term
		switch x := a.(type) {
		case Term:
			t = x
		case *LVal:
			if len(x.Path) == 0 && (x.Root == rObj || x.Root == rCell) {
				t = x.Ref
			} else {
				// interior pointer: modelled copy-in/copy-out through a fresh cell
				// (assumes the callee reaches the location only through this pointer)
				cur := run.valToTerm(st, run.load(st, x))
				cell := st.NewRef()
				cl := run.derefPtr(st, cell, x.Type)
				run.store(st, cl, cur)
				t = cell
				copies = append(copies, copyBack{x, cell})
				run.note("interior pointer passed to %s: modelled copy-in/copy-out", fc.Key)
			}
		case *Closure, *FuncVal:
			t = run.funcTerm(st, x)
			env.closures = appendClosure(env.closures, names[i], x)
		default:
			fail("%s: unsupported argument %T", run.key, a)
		}
		env.vars[names[i]] = CVal{T: t, Type: ptypes[i]}
	}
	if len(copies) > 0 {
		*pre = *st.Snap() // the pre-state includes the copied-in cells
	}
	where := run.posOf(in)
	st.script.Comment("call " + fc.Key + " @ " + where)
	// preconditions
	for i, cl := range fc.Requires {
		goals := env.proveGoals(cl.Expr)
		lab := cl.Label
		if lab == "" {
			lab = fmt.Sprint(i)
		}
		run.addGoals(st, "pre", shortKey(fc.Key)+"."+lab, goals, "precondition of "+fc.Key+": "+cl.Src, where)
		// continue under the precondition
		t := env.evalBool(cl.Expr)
		for _, f := range env.takeFacts() {
			st.Assume(f)
		}
		st.Assume(t)
	}
	// frame
	if fc.Iterates != "" && fc.HasAssigns {
		if !run.applyIterates(st, fc, env, names, args, in, callee, bindings, srcBindings) {
			st.HavocAll("callee " + fc.Key + " iterates a callback whose effect is not described here")
		}
	} else if !fc.Pure {
		if !fc.HasAssigns {
			st.HavocAll("callee " + fc.Key + " has no assigns clause")
		} else {
			// even "assigns nothing" callees may allocate: new epoch framed on the pre-state
			as := env.assignSetOf(fc)
			if fc.HasAssumedAssigns {
				as = env.assignSetOfItems(fc.AssumedAssigns, fc.Where)
				run.assumedFrames[fc.Key] = true
			}
			for _, f := range env.takeFacts() {
				st.Assume(f)
			}
			if as.all && run.contract != nil && len(run.contract.CallPreserves[fc.Key]) > 0 && st.frame != nil {
				// the function under verification assumes that this callee leaves some objects alone
				cenv := run.contractEnv(st, run.entry, st.frame)
				keep := cenv.assignSetOfItems(run.contract.CallPreserves[fc.Key], run.contract.Where)
				for _, f := range cenv.takeFacts() {
					st.Assume(f)
				}
				pa := newAssignSet()
				mark := st.alloc
				pa.allBelow = &mark
				pa.keep = keep
				for _, r := range sortedKeys(st.private) {
					pa.keepRefs = append(pa.keepRefs, Term{r, SInt})
				}
				st.script.Comment("callee " + fc.Key + " assigns everything except what " + run.key + " assumes it preserves")
				st.newEpoch(pre, pa)
				run.assumedFrames[run.key+" assumes "+fc.Key+" preserves its source"] = true
			} else if as.all {
				st.HavocAll("callee " + fc.Key + " assigns everything")
			} else if as.onlyRefs != nil {
				st.script.Comment("callee " + fc.Key + " writes only objects reachable from a destination private to this function")
				st.newEpoch(pre, as)
			} else {
				run.havocAssignSet(st, pre, as)
			}
		}
	}
	// the arguments are now known to the callee
	for _, n := range names {
		st.escape(env.vars[n].T.S)
	}
	// results
	res := run.freshResults(st, sig.Results(), "ret."+shortKey(fc.Key))
	post := &CEnv{run: run, st: st, cur: st, old: pre, vars: env.vars, pkg: fc.Pkg, tsubst: env.tsubst, closures: env.closures}
	run.bindResults(post, sig, res, fc)
	for _, cl := range fc.Ensures {
		if cl.Internal {
			continue
		}
		t := post.evalBool(cl.Expr)
		for _, f := range post.takeFacts() {
			st.Assume(f)
		}
		st.script.Comment("ensures [" + cl.Label + "] of " + fc.Key)
		st.Assume(t)
	}
	for _, cb := range copies {
		v := run.load(st, run.derefPtr(st, cb.cell, cb.lv.Type))
		run.store(st, cb.lv, v)
	}
	return res
}

func shortKey(k string) string {
	if i := strings.LastIndex(k, "."); i >= 0 && !strings.HasSuffix(k, ")") {
		// keep method receivers readable: (*ordered.Map).Set -> Map.Set
		if j := strings.Index(k, ")."); j >= 0 {
			recv := k[1:j]
			recv = strings.TrimPrefix(recv, "*")
			if d := strings.LastIndex(recv, "."); d >= 0 {
				recv = recv[d+1:]
			}
			return recv + "." + k[j+2:]
		}
		return k[i+1:]
	}
	return k
}

// havocAssignSet starts a new heap epoch in which every component agrees with
// the pre-state on all pre-existing locations outside the assigns set (objects
// allocated by the callee are unconstrained).
func (run *FuncRun) havocAssignSet(st *State, pre *Snapshot, as *assignSet) {
	// Objects allocated by the callee appear in the so far unconstrained part
	// (references >= the old allocation counter) of the existing components,
	// so only the assigned components need new versions.
	st.HavocAlloc()
	news := map[string]Term{}
	for _, name := range sortedKeys(as.comps) {
		so := as.comps[name]
		run.compSorts[name] = so
		old := st.H(name, so)
		nw := st.Fresh("hv", so)
		if f := nilMapFact(name, nw); f != "" {
			st.script.Add(f)
		}
		for _, f := range run.heapFacts(name, nw, st.alloc) {
			st.script.Add(f)
		}
		for _, f := range run.frameAxioms(name, nw, old, pre.alloc, as) {
			st.script.Add(f)
		}
		news[name] = nw
	}
	for name, nw := range news {
		st.heap[name] = nw
	}
	for _, name := range sortedKeys(news) {
		if strings.HasPrefix(name, "MapCard:") {
			domName := "MapDom:" + strings.TrimPrefix(name, "MapCard:")
			if ds, ok := run.compSorts[domName]; ok {
				for _, f := range run.mapVersionFacts(name, news[name], st.H(domName, ds)) {
					st.script.Add(f)
				}
			}
		}
	}
	if as.all {
		return
	}
	// package-level variables named by the callee
	for g := range as.globals {
		comp := "G:" + g
		if so, ok := run.compSorts[comp]; ok {
			st.heap[comp] = st.Fresh("hv", so)
		}
	}
}

// frameAxioms relates a new version of a component to its parent version.
func (run *FuncRun) frameAxioms(name string, nw, old Term, preAlloc Term, as *assignSet) []string {
	reg := run.eng.reg
	var out []string
	if strings.HasPrefix(name, "G:") {
		if as != nil && (as.all || as.allBelow != nil || as.globals[strings.TrimPrefix(name, "G:")]) {
			return nil
		}
		return []string{fmt.Sprintf("(assert (= %s %s))", nw.S, old.S)}
	}
	if as != nil && as.wholeComps[name] {
		return out // every object of this component may have changed
	}
	r := run.freshName("r")
	var conds []string
	conds = append(conds, fmt.Sprintf("(< %s %s)", r, preAlloc.S))
	if as != nil && as.onlyRefs != nil {
		for _, w := range as.onlyRefs {
			conds = append(conds, fmt.Sprintf("(not (= %s %s))", r, w.S))
		}
		out = append(out, fmt.Sprintf("(assert (forall ((%s Int)) (! (=> (and %s) (= (select %s %s) (select %s %s))) :pattern ((select %s %s)))))",
			r, strings.Join(conds, " "), nw.S, r, old.S, r, nw.S, r))
		return out
	}
	if as != nil && as.allBelow != nil && !(as.keep != nil && as.keep.wholeComps[name]) {
		// callback effect: objects allocated since the enclosing function was entered, and the
		// explicitly preserved ones, keep their contents; everything older may change
		alts := []string{fmt.Sprintf("(>= %s %s)", r, as.allBelow.S)}
		if as.keep != nil {
			for _, w := range as.keep.whole[name] {
				alts = append(alts, fmt.Sprintf("(= %s %s)", r, w.S))
			}
		}
		for _, w := range as.keepRefs {
			alts = append(alts, fmt.Sprintf("(= %s %s)", r, w.S))
		}
		conds = append(conds, "(or "+strings.Join(alts, " ")+")")
	}
	if as != nil {
		// the nil object (reference 0) can never be written
		for _, w := range as.whole[name] {
			conds = append(conds, fmt.Sprintf("(or (= %s 0) (not (= %s %s)))", r, r, w.S))
		}
		for _, refText := range sortedKeys(as.fields[name]) {
			conds = append(conds, fmt.Sprintf("(or (= %s 0) (not (= %s %s)))", r, r, refText))
		}
	}
	if as != nil && len(as.anyFields[name]) > 0 {
		// some fields may change in every object: the others are preserved
		_, es := nw.Sort.arrayParts()
		if si := reg.Struct(es); si != nil {
			var eqs []string
			for fi, f := range si.Fields {
				if as.anyFields[name][fi] {
					continue
				}
				eqs = append(eqs, fmt.Sprintf("(= (%s (select %s %s)) (%s (select %s %s)))", f.Accessor, nw.S, r, f.Accessor, old.S, r))
			}
			if len(eqs) > 0 {
				out = append(out, fmt.Sprintf("(assert (forall ((%s Int)) (! (=> (and %s) (and %s)) :pattern ((select %s %s)))))",
					r, strings.Join(conds, " "), strings.Join(eqs, " "), nw.S, r))
			}
			return out
		}
	}
	out = append(out, fmt.Sprintf("(assert (forall ((%s Int)) (! (=> (and %s) (= (select %s %s) (select %s %s))) :pattern ((select %s %s)))))",
		r, strings.Join(conds, " "), nw.S, r, old.S, r, nw.S, r))
	if as == nil {
		return out
	}
	// field-level preservation for objects with partially assigned fields
	_, elemSort := nw.Sort.arrayParts()
	if si := reg.Struct(elemSort); si != nil {
		for _, refText := range sortedKeys(as.fields[name]) {
			fis := as.fields[name][refText]
			ref := as.frefs[name][refText]
			assigned := map[int]bool{}
			for _, fi := range fis {
				assigned[fi] = true
			}
			for fi := range si.Fields {
				if assigned[fi] {
					continue
				}
				// preserved unless another item aliases this object and assigns the field
				var guards []Term
				for _, w := range as.whole[name] {
					guards = append(guards, Neq(ref, w))
				}
				for other, ofis := range as.fields[name] {
					if other == refText {
						continue
					}
					for _, x := range ofis {
						if x == fi {
							guards = append(guards, Neq(ref, as.frefs[name][other]))
						}
					}
				}
				out = append(out, "(assert "+Implies(And(guards...), Eq(reg.FieldGet(Select(nw, ref), fi), reg.FieldGet(Select(old, ref), fi))).S+")")
			}
		}
	}
	return out
}

// ---------- builtins ----------

func (run *FuncRun) execBuiltin(st *State, bi *ssa.Builtin, c *ssa.CallCommon, args []Val, in ssa.Instruction) Val {
	reg := run.eng.reg
	switch bi.Name() {
	case "len":
		x := run.valToTerm(st, args[0])
		switch u := under(c.Args[0].Type()).(type) {
		case *types.Slice:
			return SliceLen(x)
		case *types.Map:
			mc := run.mapComps(u)
			run.mapAxioms(st, mc, x)
			return mapCard(st, mc, x)
		case *types.Basic:
			return app(SInt, "str.len", x)
		case *types.Array:
			return IntLit(u.Len())
		case *types.Pointer:
			return IntLit(under(u.Elem()).(*types.Array).Len())
		case *types.TypeParam:
			if core := coreOf(u); core != nil {
				switch cu := core.(type) {
				case *types.Slice:
					return SliceLen(x)
				case *types.Map:
					mc := run.mapComps(cu)
					run.mapAxioms(st, mc, x)
					return mapCard(st, mc, x)
				}
			}
		}
		fail("%s: len of %s", run.key, c.Args[0].Type())
	case "cap":
		return SliceCap(run.valToTerm(st, args[0]))
	case "append":
		return run.execAppend(st, c, args, in)
	case "delete":
		m := run.valToTerm(st, args[0])
		k := run.valToTerm(st, args[1])
		mt := coreMap(c.Args[0].Type())
		run.mapDelete(st, mt, m, k)
		return Tuple{}
	case "ssa:wrapnilchk":
		x := run.valToTerm(st, args[0])
		run.nilCheck(st, x, in)
		return x
	case "ssa:deferstack":
		return IntLit(0)
	case "panic":
		run.addObligation(st, "panic", "", TFalse, "explicit panic unreachable", run.posOf(in))
		st.Assume(TFalse)
		return Tuple{}
	case "print", "println":
		return Tuple{}
	case "min", "max":
		a := run.valToTerm(st, args[0])
		for _, o := range args[1:] {
			b := run.valToTerm(st, o)
			if bi.Name() == "min" {
				a = Ite(Le(a, b), a, b)
			} else {
				a = Ite(Ge(a, b), a, b)
			}
		}
		return a
	case "clear":
		if mt := coreMap(c.Args[0].Type()); mt != nil {
			m := run.valToTerm(st, args[0])
			mc := run.mapComps(mt)
			isNil := Eq(m, IntLit(0))
			domH := st.H(mc.Dom, mc.DomS)
			cardH := st.H(mc.Card, mc.CardS)
			st.SetH(mc.Dom, Store(domH, m, Ite(isNil, Select(domH, m), ConstArray(ArrSort(mc.K, SBool), TFalse))))
			st.SetH(mc.Card, Store(cardH, m, IntLit(0)))
			return Tuple{}
		}
	}
	_ = reg
	fail("%s: unsupported builtin %s", run.key, bi.Name())
	return nil
}

func coreMap(t types.Type) *types.Map {
	switch u := under(t).(type) {
	case *types.Map:
		return u
	case *types.TypeParam:
		if c := coreOf(u); c != nil {
			if m, ok := c.(*types.Map); ok {
				return m
			}
		}
	}
	if tp, ok := t.(*types.TypeParam); ok {
		if c := coreOf(tp); c != nil {
			if m, ok := c.(*types.Map); ok {
				return m
			}
		}
	}
	return nil
}

func coreSlice(t types.Type) *types.Slice {
	switch u := under(t).(type) {
	case *types.Slice:
		return u
	}
	if tp, ok := t.(*types.TypeParam); ok {
		if c := coreOf(tp); c != nil {
			if s, ok := c.(*types.Slice); ok {
				return s
			}
		}
	}
	return nil
}

// execAppend models append faithfully with respect to aliasing: in place when
// capacity allows, otherwise into a fresh array (no slicing in the subset, so
// content beyond len is unobservable).
func (run *FuncRun) execAppend(st *State, c *ssa.CallCommon, args []Val, in ssa.Instruction) Val {
	reg := run.eng.reg
	s := run.valToTerm(st, args[0])
	if len(args) == 1 {
		return s
	}
	sl := coreSlice(c.Args[0].Type())
	if sl == nil {
		fail("%s: append to %s", run.key, c.Args[0].Type())
	}
	es := reg.SortOf(sl.Elem())
	name := compArr(es)
	aso := ArrSort(SInt, ArrSort(SInt, es))
	if under(c.Args[1].Type()) == types.Typ[types.String].Underlying() {
		// append([]byte, string...)
		res := st.Fresh("appended", SSlice)
		st.assumeSliceWF(res)
		st.HavocComp(func() string { run.compSorts[name] = aso; return name }())
		return res
	}
	t := run.valToTerm(st, args[1])
	h := st.H(name, aso)
	// appended elements are (conservatively) reachable through the result
	st.escape(Select(h, SliceArr(t)).S)
	if n, elems := run.staticElems(st, c.Args[1], t, es); n >= 0 {
		for _, e := range elems {
			st.escape(e.S)
		}
	}
	lenS, lenT := SliceLen(s), SliceLen(t)
	newLen := st.Name("len", Add(lenS, lenT))
	inplace := st.Name("inplace", Le(newLen, SliceCap(s)))
	fresh := st.NewRef()
	arr := st.Name("arr", Ite(inplace, SliceArr(s), fresh))
	capF := st.Fresh("cap", SInt)
	st.Assume(Ge(capF, newLen))
	oldContent := Select(h, SliceArr(s))
	var content Term
	// statically known single-element argument (the common varargs shape)?
	if n, elems := run.staticElems(st, c.Args[1], t, es); n >= 0 {
		content = oldContent
		for i := 0; i < n; i++ {
			content = Store(content, Add(lenS, IntLit(int64(i))), elems[i])
		}
	} else {
		content = st.Fresh("content", ArrSort(SInt, es))
		i := run.freshName("i")
		tc := Select(h, SliceArr(t))
		st.script.Add(fmt.Sprintf("(assert (forall ((%s Int)) (! (=> (and (<= 0 %s) (< %s %s)) (= (select %s %s) (select %s %s))) :pattern ((select %s %s)))))",
			i, i, i, lenS.S, content.S, i, oldContent.S, i, content.S, i))
		st.script.Add(fmt.Sprintf("(assert (forall ((%s Int)) (! (=> (and (<= 0 %s) (< %s %s)) (= (select %s (+ %s %s)) (select %s %s))) :pattern ((select %s %s)))))",
			i, i, i, lenT.S, content.S, lenS.S, i, tc.S, i, tc.S, i))
	}
	// appending nothing to a slice leaves it (and nil) untouched
	res := Ite(Eq(lenT, IntLit(0)), s, MkSlice(arr, newLen, Ite(inplace, SliceCap(s), capF)))
	st.SetH(name, Ite(Eq(lenT, IntLit(0)), h, Store(h, arr, content)))
	out := st.Name("app", res)
	// make the appended elements visible as terms of the result (helps E-matching find witnesses)
	if n, elems := run.staticElems(st, c.Args[1], t, es); n >= 0 {
		h2 := st.H(name, aso)
		for i := 0; i < n; i++ {
			st.Assume(Eq(Select(Select(h2, SliceArr(out)), Add(lenS, IntLit(int64(i)))), elems[i]))
		}
	}
	return out
}

// staticElems recognises the varargs pattern: slice t[:] of a fresh [N]T array.
func (run *FuncRun) staticElems(st *State, v ssa.Value, t Term, es Sort) (int, []Term) {
	sl, ok := v.(*ssa.Slice)
	if !ok || sl.High != nil {
		return -1, nil
	}
	pt, ok := under(sl.X.Type()).(*types.Pointer)
	if !ok {
		return -1, nil
	}
	at, ok := under(pt.Elem()).(*types.Array)
	if !ok || at.Len() > 8 {
		return -1, nil
	}
	h := st.H(compArr(es), ArrSort(SInt, ArrSort(SInt, es)))
	var elems []Term
	for i := int64(0); i < at.Len(); i++ {
		elems = append(elems, Select(Select(h, SliceArr(t)), IntLit(i)))
	}
	return int(at.Len()), elems
}

func (run *FuncRun) execDeferred(st *State, d deferred) {
	c := d.call
	if bi, ok := c.Value.(*ssa.Builtin); ok {
		run.execBuiltin(st, bi, c, d.args, d.pos)
		return
	}
	if c.IsInvoke() {
		st.HavocAll("deferred interface call")
		return
	}
	switch f := d.fnv.(type) {
	case *FuncVal, *Closure:
		var fn *ssa.Function
		if fv, ok := f.(*FuncVal); ok {
			fn = fv.Fn
		} else {
			fn = f.(*Closure).Fn
		}
		mode, fc := run.eng.callMode(fn)
		if mode == "contract" || mode == "external" {
			run.applyContract(st, fc, fn.Signature, nil, d.args, d.pos, fn)
			return
		}
	}
	run.unknownCalls["deferred call"] = true
	st.HavocAll("deferred call")
}

func appendClosure(m map[string]Val, name string, v Val) map[string]Val {
	if m == nil {
		m = map[string]Val{}
	}
	m[name] = v
	return m
}

// safeGoals evaluates a clause; an internal (check) clause that mentions a
// local variable not yet declared on this return path is skipped there.
func safeGoals(env *CEnv, cl *Clause) (goals []Goal, skipped bool) {
	if !cl.Internal {
		return env.proveGoals(cl.Expr), false
	}
	defer func() {
		if r := recover(); r != nil {
			if ee, ok := r.(engineError); ok && strings.Contains(ee.msg, "unknown identifier") {
				skipped = true
				return
			}
			panic(r)
		}
	}()
	return env.proveGoals(cl.Expr), false
}
