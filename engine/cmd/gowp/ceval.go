package main

// Evaluation of contract expressions into SMT terms, goal splitting.

import (
	"fmt"
	"sort"
	"go/constant"
	"go/types"
	"strings"

	"golang.org/x/tools/go/ssa"
)

// CVal is a typed contract-level value. IsSeq marks a slice whose Term is the
// content array itself (ghost-function parameters).
type CVal struct {
	T     Term
	Type  types.Type
	IsSeq bool
}

type Goal struct {
	Decls []string
	Hyps  []Term
	Goal  Term
}

type CEnv struct {
	run       *FuncRun
	st        *State
	cur       heapReader
	curAlloc  Term
	old       *Snapshot
	vars      map[string]CVal
	frame     *Frame // locals visible (loop invariants); nil for pre/post
	loopBlock *ssa.BasicBlock
	virt      *virtLoop // callback iteration at a call site, treated as a loop
	iter      *RangeIter
	pkg       string
	tsubst    map[string]types.Type
	facts     []Term
	inOld     bool
	closures  map[string]Val
	shadow    map[string]bool // names bound by macro parameters, quantifiers and let: never resolved to locals
	inTrigger bool
	localsAt  map[*ssa.Alloc]Val // atloop(): locals as they were at loop entry
	qdepth    int // number of enclosing binders (bound variables are named by depth, so
	// that the same formula evaluated twice in the same state has the same text)
	fuel      string // bound fuel variable in scope ("" = default fuel constant)
	fuelUsed  *bool
	seqBinders bool  // lemma context: bound variables of slice type are sequences
	depth     int
}

func (run *FuncRun) contractEnv(st *State, old *Snapshot, fr *Frame) *CEnv {
	env := &CEnv{run: run, st: st, cur: st, old: old, vars: map[string]CVal{}, frame: fr, tsubst: run.tsubst}
	env.pkg = run.eng.pkgOfFunc(run.fn)
	for k, v := range run.entryVars {
		env.vars[k] = v
	}
	return env
}

func (env *CEnv) shadowName(n string) {
	if env.shadow == nil {
		env.shadow = map[string]bool{}
	}
	env.shadow[n] = true
}

func (env *CEnv) clone() *CEnv {
	n := *env
	n.vars = make(map[string]CVal, len(env.vars))
	for k, v := range env.vars {
		n.vars[k] = v
	}
	n.shadow = make(map[string]bool, len(env.shadow))
	for k := range env.shadow {
		n.shadow[k] = true
	}
	n.facts = nil
	return &n
}

func (env *CEnv) oldEnv() *CEnv {
	n := env.clone()
	n.cur = snapReader{env.old, env.run, env.scriptOf()}
	n.curAlloc = env.old.alloc
	n.inOld = true
	// locals keep their current values inside old(): only the heap is old
	return n
}

func (env *CEnv) scriptOf() *Script {
	if env.st != nil {
		return env.st.script
	}
	return nil
}

func (env *CEnv) takeFacts() []Term {
	f := env.facts
	env.facts = nil
	return f
}

func (env *CEnv) allocNow() Term {
	if env.curAlloc.S != "" {
		return env.curAlloc
	}
	return env.st.alloc
}

func (env *CEnv) fail(format string, a ...any) {
	fail("contract of %s: %s", env.run.key, fmt.Sprintf(format, a...))
}

func (env *CEnv) evalBool(e Expr) Term {
	v := env.eval(e)
	if v.T.Sort != SBool {
		env.fail("expected a boolean expression, got sort %s", v.T.Sort)
	}
	return v.T
}

var tBool = types.Typ[types.Bool]
var tInt = types.Typ[types.Int]
var tString = types.Typ[types.String]

func (env *CEnv) reg() *Registry { return env.run.eng.reg }

func (env *CEnv) eval(e Expr) CVal {
	env.depth++
	defer func() { env.depth-- }()
	if env.depth > 200 {
		env.fail("expression nesting too deep (recursive macro?)")
	}
	switch x := e.(type) {
	case *EInt:
		return CVal{T: IntLit(x.V), Type: tInt}
	case *EStr:
		return CVal{T: StrLit(x.V), Type: tString}
	case *EBool:
		return CVal{T: BoolLit(x.V), Type: tBool}
	case *ENil:
		return CVal{T: Term{"nil", "nil"}, Type: types.Typ[types.UntypedNil]}
	case *EIdent:
		return env.ident(x.Name)
	case *EUnary:
		return env.unary(x)
	case *EBinary:
		return env.binary(x)
	case *ECond:
		c := env.evalBool(x.C)
		a := env.eval(x.A)
		b := env.eval(x.B)
		a, b = env.unifyNil(a, b)
		return CVal{T: Ite(c, a.T, b.T), Type: a.Type}
	case *ECall:
		return env.call(x)
	case *EIndex:
		return env.index(x)
	case *EField:
		return env.field(x)
	case *EQuant:
		return env.quant(x)
	case *ELet:
		v := env.eval(x.Val)
		n := env.clone()
		n.vars[x.Name] = v
		n.shadow[x.Name] = true
		r := n.eval(x.Body)
		env.facts = append(env.facts, n.facts...)
		return r
	}
	env.fail("unsupported expression %T", e)
	return CVal{}
}

func (env *CEnv) unifyNil(a, b CVal) (CVal, CVal) {
	if a.T.Sort == "nil" && b.T.Sort != "nil" {
		a = CVal{T: env.reg().Zero(b.T.Sort), Type: b.Type}
	}
	if b.T.Sort == "nil" && a.T.Sort != "nil" {
		b = CVal{T: env.reg().Zero(a.T.Sort), Type: a.Type}
	}
	return a, b
}

// ---------- identifiers ----------

func (env *CEnv) ident(name string) CVal {
	if v, ok := env.vars[name]; ok {
		if env.frame == nil || strings.HasPrefix(name, "$") || env.shadow[name] {
			return v
		}
		// in loop invariants, a parameter name denotes its current value (below)
		if _, isParam := env.run.entryVars[name]; !isParam {
			return v
		}
	}
	if env.frame != nil {
		// look through the frames from the function under verification inwards;
		// in each frame a plain local wins over a captured (heap) local
		for _, fr := range env.framesOuterFirst() {
			one := *env
			one.frame = &Frame{fn: fr.fn, regs: fr.regs, locals: fr.locals, loopLocals: fr.loopLocals, loopEntry: fr.loopEntry}
			if a := one.localAlloc(name); a != nil {
				if env.localsAt != nil {
					if t, ok := env.localsAt[a].(Term); ok {
						return CVal{T: t, Type: a.Type().(*types.Pointer).Elem()}
					}
				}
				if t, ok := fr.locals[a].(Term); ok {
					return CVal{T: t, Type: a.Type().(*types.Pointer).Elem()}
				}
			}
			if hv, ok := one.heapLocal(name); ok {
				return hv
			}
		}
	}
	if v, ok := env.vars[name]; ok {
		return v
	}
	// captured variable of a closure
	if v, ok := env.vars["&"+name]; ok {
		pt := v.Type.(*types.Pointer)
		return env.derefCell(v.T, pt.Elem())
	}
	// package-level variable or constant
	if pkg := env.run.eng.typesPkg(env.pkg); pkg != nil {
		if obj := pkg.Scope().Lookup(name); obj != nil {
			return env.object(obj)
		}
	}
	env.fail("unknown identifier %q", name)
	return CVal{}
}

func (env *CEnv) object(obj types.Object) CVal {
	switch o := obj.(type) {
	case *types.Const:
		so := env.reg().SortOf(o.Type())
		switch so {
		case SInt:
			if i, ok := constant.Int64Val(constant.ToInt(o.Val())); ok {
				return CVal{T: IntLit(i), Type: o.Type()}
			}
		case SString:
			return CVal{T: StrLit(constant.StringVal(o.Val())), Type: o.Type()}
		case SBool:
			return CVal{T: BoolLit(constant.BoolVal(o.Val())), Type: o.Type()}
		}
	case *types.Var:
		so := env.reg().SortOf(o.Type())
		comp := "G:" + shortPkg(o.Pkg().Path(), o.Pkg().Name()) + "." + o.Name()
		return CVal{T: env.cur.H(comp, so), Type: o.Type()}
	}
	env.fail("unsupported object %s", obj)
	return CVal{}
}

func (env *CEnv) derefCell(ref Term, elem types.Type) CVal {
	so := env.reg().SortOf(elem)
	if _, ok := under(elem).(*types.Struct); ok {
		return CVal{T: Select(env.cur.H(compStruct(so), ArrSort(SInt, so)), ref), Type: elem}
	}
	return CVal{T: Select(env.cur.H(compCell(so), ArrSort(SInt, so)), ref), Type: elem}
}

// localAlloc resolves a local variable name to its (non-heap) Alloc, looking
// from the innermost (possibly inlined) frame outwards and using go/types
// scopes at the loop position to disambiguate shadowed names.
// framesOuterFirst lists the frame chain from the function under verification
// (whose contract the expression belongs to) inwards to inlined callees.
func (env *CEnv) framesOuterFirst() []*Frame {
	var fs []*Frame
	for fr := env.frame; fr != nil; fr = fr.parent {
		fs = append([]*Frame{fr}, fs...)
	}
	return fs
}

func (env *CEnv) localAlloc(name string) *ssa.Alloc {
	for _, fr := range env.framesOuterFirst() {
		var cands []*ssa.Alloc
		for _, a := range fr.fn.Locals {
			if a.Comment == name && !a.Heap {
				if _, ok := fr.locals[a]; ok {
					cands = append(cands, a)
				}
			}
		}
		switch len(cands) {
		case 0:
			continue
		case 1:
			return cands[0]
		}
		if env.loopBlock != nil && fr == env.frame {
			if a := env.run.eng.resolveShadowed(fr.fn, env.loopBlock, name, cands); a != nil {
				return a
			}
		}
		return cands[len(cands)-1]
	}
	return nil
}

// heapLocalRef returns the cell reference of a captured local variable.
func (env *CEnv) heapLocalRef(name string) (Term, types.Type, bool) {
	for _, fr := range env.framesOuterFirst() {
		for _, blk := range fr.fn.Blocks {
			for _, in := range blk.Instrs {
				if a, ok := in.(*ssa.Alloc); ok && a.Heap && a.Comment == name {
					if ref, ok := fr.regs[a].(Term); ok {
						return ref, a.Type().(*types.Pointer).Elem(), true
					}
				}
			}
		}
		for _, fv := range fr.fn.FreeVars {
			if fv.Name() == name {
				if ref, ok := fr.regs[fv].(Term); ok {
					return ref, fv.Type().(*types.Pointer).Elem(), true
				}
			}
		}
	}
	if v, ok := env.vars["&"+name]; ok {
		return v.T, v.Type.(*types.Pointer).Elem(), true
	}
	return Term{}, nil, false
}

func (env *CEnv) heapLocal(name string) (CVal, bool) {
	// a captured local variable is a local: inside old() it still has its
	// current value, so its cell is read in the current state
	if env.st != nil && env.cur != heapReader(env.st) && env.localsAt == nil {
		n := *env
		n.cur = env.st
		return n.heapLocal(name)
	}
	for _, fr := range env.framesOuterFirst() {
		for _, blk := range fr.fn.Blocks {
			for _, in := range blk.Instrs {
				if a, ok := in.(*ssa.Alloc); ok && a.Heap && a.Comment == name {
					if ref, ok := fr.regs[a].(Term); ok {
						return env.derefCell(ref, a.Type().(*types.Pointer).Elem()), true
					}
				}
			}
		}
		// captured variables of an inlined closure
		for _, fv := range fr.fn.FreeVars {
			if fv.Name() == name {
				if ref, ok := fr.regs[fv].(Term); ok {
					return env.derefCell(ref, fv.Type().(*types.Pointer).Elem()), true
				}
			}
		}
	}
	return CVal{}, false
}

// ---------- operators ----------

func (env *CEnv) unary(x *EUnary) CVal {
	v := env.eval(x.X)
	switch x.Op {
	case "!":
		return CVal{T: Not(v.T), Type: tBool}
	case "-":
		return CVal{T: app(SInt, "-", v.T), Type: v.Type}
	case "*":
		pt, ok := under(v.Type).(*types.Pointer)
		if !ok {
			env.fail("dereference of non-pointer %s", v.Type)
		}
		return env.derefCell(v.T, pt.Elem())
	}
	env.fail("unsupported unary %s", x.Op)
	return CVal{}
}

func (env *CEnv) binary(x *EBinary) CVal {
	switch x.Op {
	case "&&":
		return CVal{T: And(env.evalBool(x.X), env.evalBool(x.Y)), Type: tBool}
	case "||":
		return CVal{T: Or(env.evalBool(x.X), env.evalBool(x.Y)), Type: tBool}
	case "==>":
		return CVal{T: Implies(env.evalBool(x.X), env.evalBool(x.Y)), Type: tBool}
	case "<==>":
		return CVal{T: Eq(env.evalBool(x.X), env.evalBool(x.Y)), Type: tBool}
	}
	a := env.eval(x.X)
	b := env.eval(x.Y)
	a, b = env.unifyNil(a, b)
	switch x.Op {
	case "==", "!=":
		if !sortCompat(a.T.Sort, b.T.Sort) {
			env.fail("comparison of different sorts: %s (%s) vs %s (%s)", a.T.S, a.T.Sort, b.T.S, b.T.Sort)
		}
		t := Eq(a.T, b.T)
		if x.Op == "!=" {
			t = Not(t)
		}
		return CVal{T: t, Type: tBool}
	case "<", "<=", ">", ">=":
		if a.T.Sort == SString {
			switch x.Op {
			case "<":
				return CVal{T: app(SBool, "str.<", a.T, b.T), Type: tBool}
			case "<=":
				return CVal{T: app(SBool, "str.<=", a.T, b.T), Type: tBool}
			case ">":
				return CVal{T: app(SBool, "str.<", b.T, a.T), Type: tBool}
			default:
				return CVal{T: app(SBool, "str.<=", b.T, a.T), Type: tBool}
			}
		}
		return CVal{T: app(SBool, x.Op, a.T, b.T), Type: tBool}
	case "+":
		if a.T.Sort == SString {
			return CVal{T: app(SString, "str.++", a.T, b.T), Type: a.Type}
		}
		return CVal{T: Add(a.T, b.T), Type: a.Type}
	case "++":
		return CVal{T: app(SString, "str.++", a.T, b.T), Type: a.Type}
	case "-":
		return CVal{T: Sub(a.T, b.T), Type: a.Type}
	case "*":
		return CVal{T: Mul(a.T, b.T), Type: a.Type}
	case "/":
		return CVal{T: app(SInt, "div", a.T, b.T), Type: a.Type}
	case "%":
		return CVal{T: app(SInt, "mod", a.T, b.T), Type: a.Type}
	}
	env.fail("unsupported operator %s", x.Op)
	return CVal{}
}

// ---------- field / index ----------

func (env *CEnv) field(x *EField) CVal {
	// package-qualified name?
	if id, ok := x.X.(*EIdent); ok {
		if _, isVar := env.vars[id.Name]; !isVar && (env.frame == nil || env.localAlloc(id.Name) == nil) {
			if pkg := env.run.eng.typesPkg(id.Name); pkg != nil {
				if obj := pkg.Scope().Lookup(x.Name); obj != nil {
					return env.object(obj)
				}
				env.fail("no %s.%s", id.Name, x.Name)
			}
		}
	}
	v := env.eval(x.X)
	return env.fieldOf(v, x.Name)
}

func (env *CEnv) fieldOf(v CVal, name string) CVal {
	t := v.Type
	if tp, ok := t.(*types.TypeParam); ok {
		if s, ok := env.tsubst[tp.Obj().Name()]; ok {
			t = s
		}
	}
	obj, index, _ := types.LookupFieldOrMethod(t, true, nil, name)
	if obj == nil {
		// unexported field of another package: search by name
		obj, index = lookupFieldAnyPkg(t, name)
	}
	fld, ok := obj.(*types.Var)
	if !ok || fld == nil {
		env.fail("no field %q in %s", name, t)
	}
	cur := v
	for _, idx := range index {
		cur = env.stepField(cur, idx)
	}
	return cur
}

func lookupFieldAnyPkg(t types.Type, name string) (types.Object, []int) {
	if p, ok := under(t).(*types.Pointer); ok {
		t = p.Elem()
	}
	st, ok := under(t).(*types.Struct)
	if !ok {
		return nil, nil
	}
	for i := 0; i < st.NumFields(); i++ {
		if st.Field(i).Name() == name {
			return st.Field(i), []int{i}
		}
	}
	return nil, nil
}

func (env *CEnv) stepField(v CVal, idx int) CVal {
	t := v.Type
	if pt, ok := under(t).(*types.Pointer); ok {
		// implicit dereference
		v = env.derefCell(v.T, pt.Elem())
		t = pt.Elem()
	}
	st, ok := under(t).(*types.Struct)
	if !ok {
		env.fail("field access on non-struct %s", t)
	}
	return CVal{T: env.reg().FieldGet(v.T, idx), Type: st.Field(idx).Type()}
}

func (env *CEnv) index(x *EIndex) CVal {
	v := env.eval(x.X)
	i := env.eval(x.I)
	return env.indexOf(v, i)
}

func (env *CEnv) indexOf(v, i CVal) CVal {
	reg := env.reg()
	t := v.Type
	if tp, ok := t.(*types.TypeParam); ok {
		if c := coreOf(tp); c != nil {
			t = c
		}
	}
	switch u := under(t).(type) {
	case *types.Slice:
		es := reg.SortOf(u.Elem())
		if v.IsSeq {
			return CVal{T: Select(v.T, i.T), Type: u.Elem()}
		}
		h := env.cur.H(compArr(es), ArrSort(SInt, ArrSort(SInt, es)))
		return CVal{T: Select(Select(h, SliceArr(v.T)), i.T), Type: u.Elem()}
	case *types.Map:
		mc := env.run.mapComps(u)
		dom := Select(mapDom(env.cur, mc, v.T), i.T)
		val := Select(mapVal(env.cur, mc, v.T), i.T)
		if env.inTrigger {
			return CVal{T: val, Type: u.Elem()} // no ite in patterns
		}
		return CVal{T: Ite(dom, val, reg.Zero(mc.V)), Type: u.Elem()}
	case *types.Array:
		return CVal{T: Select(v.T, i.T), Type: u.Elem()}
	}
	env.fail("cannot index %s", v.Type)
	return CVal{}
}

// ---------- quantifiers ----------

func (env *CEnv) quant(q *EQuant) CVal {
	n := env.clone()
	var binders []string
	var guards []Term
	n.qdepth = env.qdepth + 1
	for _, b := range q.Vars {
		name := fmt.Sprintf("%s!q%d", sanitizeName(b.Name), env.qdepth)
		cv := env.bindVar(b, name)
		binders = append(binders, fmt.Sprintf("(%s %s)", name, cv.T.Sort))
		n.vars[b.Name] = cv
		n.shadow[b.Name] = true
		_ = guards
	}
	fuelVar := fmt.Sprintf("fuel!q%d", env.qdepth)
	used := false
	n.fuel = fuelVar
	n.fuelUsed = &used
	body := n.evalBool(q.Body)
	// Facts discovered inside the body that mention bound variables are
	// instances of the per-version map axioms (see compInit) and are dropped;
	// the others are passed up.
	for _, f := range n.takeFacts() {
		mentions := false
		for _, b := range q.Vars {
			if strings.Contains(f.S, n.vars[b.Name].T.S) {
				mentions = true
			}
		}
		if !mentions {
			env.facts = append(env.facts, f)
		}
	}
	var pats []string
	for _, trig := range q.Triggers {
		var ts []string
		n.inTrigger = true
		for _, te := range trig {
			ts = append(ts, n.eval(te).T.S)
		}
		n.inTrigger = false
		n.takeFacts()
		pats = append(pats, ":pattern ("+strings.Join(ts, " ")+")")
	}
	kw := "forall"
	if !q.Forall {
		kw = "exists"
	}
	s := body.S
	if len(pats) > 0 {
		s = "(! " + s + " " + strings.Join(pats, " ") + ")"
	}
	if used {
		// Recursive ghost functions carry fuel. All fuels denote the same
		// function, so a universally quantified formula may range over the
		// fuel as well (this lets lemmas and invariants match unfolded terms);
		// otherwise the default fuel is used.
		generic := q.Forall
		for _, p := range pats {
			if !strings.Contains(p, fuelVar) {
				generic = false
			}
		}
		if generic {
			binders = append([]string{"(" + fuelVar + " Fuel)"}, binders...)
		} else {
			s = strings.ReplaceAll(s, fuelVar, env.outerFuel())
		}
	}
	return CVal{T: Term{"(" + kw + " (" + strings.Join(binders, " ") + ") " + s + ")", SBool}, Type: tBool}
}

// inferTsubst extends a type substitution with the type arguments of an
// instantiated generic type (e.g. *Map[string,any] gives K=string, V=any), so
// that predicates written over K, V can be used at instances.
func inferTsubst(cur map[string]types.Type, t types.Type) map[string]types.Type {
	if t == nil {
		return cur
	}
	if p, ok := under(t).(*types.Pointer); ok {
		t = p.Elem()
	}
	n, ok := types.Unalias(t).(*types.Named)
	if !ok || n.TypeArgs().Len() == 0 {
		return cur
	}
	tps := n.Origin().TypeParams()
	out := map[string]types.Type{}
	for k, v := range cur {
		out[k] = v
	}
	for i := 0; i < tps.Len() && i < n.TypeArgs().Len(); i++ {
		name := tps.At(i).Obj().Name()
		if _, has := out[name]; !has {
			out[name] = n.TypeArgs().At(i)
		}
	}
	return out
}

func sanitizeName(s string) string {
	var b strings.Builder
	for _, r := range s {
		if r >= 'a' && r <= 'z' || r >= 'A' && r <= 'Z' || r >= '0' && r <= '9' || r == '_' {
			b.WriteRune(r)
		} else {
			b.WriteByte('_')
		}
	}
	return b.String()
}

const defaultFuel = "(FS (FS FZ))"

func (env *CEnv) outerFuel() string {
	if env.fuel != "" {
		if env.fuelUsed != nil {
			*env.fuelUsed = true
		}
		return env.fuel
	}
	return defaultFuel
}

// bindVar types a bound variable; in lemma context slices are sequences.
func (env *CEnv) bindVar(b Binder, name string) CVal {
	ty := env.run.eng.resolveType(b.Type, env.pkg, env.tsubst)
	so := env.reg().SortOf(ty)
	if env.seqBinders && b.Type.Kind == "slice" {
		es := env.reg().SortOf(under(ty).(*types.Slice).Elem())
		return CVal{T: Term{name, ArrSort(SInt, es)}, Type: ty, IsSeq: true}
	}
	return CVal{T: Term{name, so}, Type: ty}
}

func (env *CEnv) evalSeqQuant(q *EQuant) Term {
	n := env.clone()
	n.seqBinders = true
	return n.quant(q).T
}

// ---------- calls: builtins, macros, ghost functions ----------

func (env *CEnv) call(c *ECall) CVal {
	reg := env.reg()
	switch c.Fun {
	case "old":
		if len(c.Args) != 1 {
			env.fail("old takes one argument")
		}
		o := env.oldEnv()
		v := o.eval(c.Args[0])
		env.facts = append(env.facts, o.facts...)
		return v
	case "len":
		v := env.eval(c.Args[0])
		t := v.Type
		if tp, ok := t.(*types.TypeParam); ok {
			if co := coreOf(tp); co != nil {
				t = co
			}
		}
		switch u := under(t).(type) {
		case *types.Slice:
			if v.IsSeq {
				env.fail("len of a ghost sequence")
			}
			return CVal{T: SliceLen(v.T), Type: tInt}
		case *types.Map:
			mc := env.run.mapComps(u)
			card := mapCard(env.cur, mc, v.T)
			dom := mapDom(env.cur, mc, v.T)
			env.mapFacts(mc, dom, card, v.T)
			return CVal{T: card, Type: tInt}
		case *types.Basic:
			return CVal{T: app(SInt, "str.len", v.T), Type: tInt}
		}
		env.fail("len of %s", v.Type)
	case "cap":
		v := env.eval(c.Args[0])
		return CVal{T: SliceCap(v.T), Type: tInt}
	case "arr":
		// identity of the backing array of a slice
		v := env.eval(c.Args[0])
		if v.T.Sort != SSlice {
			env.fail("arr() of non-slice")
		}
		return CVal{T: SliceArr(v.T), Type: tInt}
	case "has":
		m := env.eval(c.Args[0])
		k := env.eval(c.Args[1])
		mt := coreMap(m.Type)
		if mt == nil {
			env.fail("has: not a map: %s", m.Type)
		}
		mc := env.run.mapComps(mt)
		return CVal{T: Select(mapDom(env.cur, mc, m.T), k.T), Type: tBool}
	case "fresh":
		v := env.eval(c.Args[0])
		switch v.T.Sort {
		case SInt, SRef:
			return CVal{T: Ge(v.T, env.old.alloc), Type: tBool}
		case SSlice:
			return CVal{T: Or(Ge(SliceArr(v.T), env.old.alloc), Eq(SliceArr(v.T), IntLit(0))), Type: tBool}
		}
		env.fail("fresh of sort %s", v.T.Sort)
	case "local":
		// local(x): the local variable x of the function under verification, even
		// when a parameter / result alias of the same name exists
		id, ok := c.Args[0].(*EIdent)
		if !ok || len(c.Args) != 1 {
			env.fail("local() takes one identifier")
		}
		if env.frame != nil {
			for _, fr := range env.framesOuterFirst() {
				one := *env
				one.frame = &Frame{fn: fr.fn, regs: fr.regs, locals: fr.locals, loopLocals: fr.loopLocals, loopEntry: fr.loopEntry}
				if a := one.localAlloc(id.Name); a != nil {
					if t, ok := fr.locals[a].(Term); ok {
						return CVal{T: t, Type: a.Type().(*types.Pointer).Elem()}
					}
				}
				if hv, ok := one.heapLocal(id.Name); ok {
					return hv
				}
			}
		}
		env.fail("unknown identifier %q", id.Name)
	case "atloop":
		// value of an expression in the heap as it was when the enclosing loop was entered
		var le *Snapshot
		var lloc map[*ssa.Alloc]Val
		if env.virt != nil {
			le, lloc = env.virt.entry, env.virt.locals
		} else {
			if env.frame == nil || env.loopBlock == nil || env.frame.loopEntry[env.loopBlock.Index] == nil {
				env.fail("atloop() outside a loop invariant")
			}
			le = env.frame.loopEntry[env.loopBlock.Index]
			lloc = env.frame.loopLocals[env.loopBlock.Index]
		}
		n := env.clone()
		n.cur = snapReader{le, env.run, env.scriptOf()}
		n.curAlloc = le.alloc
		n.localsAt = lloc
		v := n.eval(c.Args[0])
		env.facts = append(env.facts, n.facts...)
		return v
	case "loopfresh":
		// allocated since the enclosing loop was entered (or nil)
		var le *Snapshot
		if env.virt != nil {
			le = env.virt.entry
		} else {
			if env.frame == nil || env.loopBlock == nil || env.frame.loopEntry[env.loopBlock.Index] == nil {
				env.fail("loopfresh() outside a loop invariant")
			}
			le = env.frame.loopEntry[env.loopBlock.Index]
		}
		v := env.eval(c.Args[0])
		switch v.T.Sort {
		case SInt, SRef:
			return CVal{T: Or(Ge(v.T, le.alloc), Eq(v.T, IntLit(0))), Type: tBool}
		case SSlice:
			return CVal{T: Or(Ge(SliceArr(v.T), le.alloc), Eq(SliceArr(v.T), IntLit(0))), Type: tBool}
		}
		env.fail("loopfresh of sort %s", v.T.Sort)
	case "allocated":
		v := env.eval(c.Args[0])
		return CVal{T: And(Gt(v.T, IntLit(0)), Lt(v.T, env.allocNow())), Type: tBool}
	case "typeis":
		v := env.eval(c.Args[0])
		ty := env.run.eng.resolveType(c.TArgs[0], env.pkg, env.tsubst)
		if isIface(ty) {
			return CVal{T: env.run.eng.implementsTerm(env.run, v.T, ty), Type: tBool}
		}
		return CVal{T: reg.IsBoxed(ty, v.T), Type: tBool}
	case "unbox":
		v := env.eval(c.Args[0])
		ty := env.run.eng.resolveType(c.TArgs[0], env.pkg, env.tsubst)
		return CVal{T: reg.Unbox(ty, v.T), Type: ty}
	case "box":
		ty := env.run.eng.resolveType(c.TArgs[0], env.pkg, env.tsubst)
		v := env.eval(c.Args[0])
		if v.T.Sort == "nil" {
			v.T = reg.Zero(reg.SortOf(ty))
		}
		return CVal{T: reg.Box(ty, v.T), Type: types.NewInterfaceType(nil, nil)}
	case "zero":
		ty := env.run.eng.resolveType(c.TArgs[0], env.pkg, env.tsubst)
		return CVal{T: reg.Zero(reg.SortOf(ty)), Type: ty}
	case "stringOf":
		a := env.eval(c.Args[0])
		env.run.declare("bytes_of_string", "(declare-fun bytes_of_string (String) Slice)")
		env.run.declare("string_of_bytes", "(declare-fun string_of_bytes (Slice) String)")
		env.run.declare("ax:bytes_string", "(assert (forall ((s String)) (! (= (string_of_bytes (bytes_of_string s)) s) :pattern ((bytes_of_string s)))))")
		return CVal{T: app(SString, "string_of_bytes", a.T), Type: tString}
	case "bytesOf":
		a := env.eval(c.Args[0])
		env.run.declare("bytes_of_string", "(declare-fun bytes_of_string (String) Slice)")
		env.run.declare("string_of_bytes", "(declare-fun string_of_bytes (Slice) String)")
		env.run.declare("ax:bytes_string", "(assert (forall ((s String)) (! (= (string_of_bytes (bytes_of_string s)) s) :pattern ((bytes_of_string s)))))")
		return CVal{T: app(SSlice, "bytes_of_string", a.T), Type: types.NewSlice(types.Typ[types.Byte])}
	case "implements":
		v := env.eval(c.Args[0])
		ty := env.run.eng.resolveType(c.TArgs[0], env.pkg, env.tsubst)
		return CVal{T: env.run.eng.implementsTerm(env.run, v.T, ty), Type: tBool}
	case "contains":
		a := env.eval(c.Args[0])
		b := env.eval(c.Args[1])
		return CVal{T: app(SBool, "str.contains", a.T, b.T), Type: tBool}
	case "trimPrefix":
		a := env.eval(c.Args[0])
		p := env.eval(c.Args[1])
		la := app(SInt, "str.len", a.T)
		lp := app(SInt, "str.len", p.T)
		return CVal{T: Ite(app(SBool, "str.prefixof", p.T, a.T), app(SString, "str.substr", a.T, lp, Sub(la, lp)), a.T), Type: tString}
	case "hasPrefix":
		s := env.eval(c.Args[0])
		p := env.eval(c.Args[1])
		return CVal{T: app(SBool, "str.prefixof", p.T, s.T), Type: tBool}
	case "visited":
		if env.iter == nil {
			env.fail("visited() outside a map range loop")
		}
		k := env.eval(c.Args[0])
		return CVal{T: Select(env.iter.Visited, k.T), Type: tBool}
	case "update":
		a := env.eval(c.Args[0])
		i := env.eval(c.Args[1])
		v := env.eval(c.Args[2])
		if !a.IsSeq {
			env.fail("update() needs a ghost sequence")
		}
		return CVal{T: Store(a.T, i.T, v.T), Type: a.Type, IsSeq: true}
	case "seq":
		a := env.eval(c.Args[0])
		return env.toSeq(a)
	case "gstate":
		// gstate(name, idx): cell idx of the ghost state component "name" (an integer token)
		id, ok := c.Args[0].(*EIdent)
		if !ok || len(c.Args) != 2 {
			env.fail("gstate(name, index)")
		}
		idx := env.eval(c.Args[1])
		return CVal{T: Select(env.cur.H("Ghost:"+id.Name, ArrSort(SInt, SInt)), idx.T), Type: tInt}
	case "unchanged":
		// Only meaningful as a proof goal (see split); as an assumption it is
		// weakened to true, which is sound.
		return CVal{T: TTrue, Type: tBool}
	case "nonnil":
		v := env.eval(c.Args[0])
		return CVal{T: Neq(v.T, reg.Zero(v.T.Sort)), Type: tBool}
	case "ite":
		cnd := env.evalBool(c.Args[0])
		a := env.eval(c.Args[1])
		b := env.eval(c.Args[2])
		a, b = env.unifyNil(a, b)
		return CVal{T: Ite(cnd, a.T, b.T), Type: a.Type}
	}
	if m := env.run.eng.macro(env.pkg, c.Fun); m != nil {
		if len(m.Params) != len(c.Args) {
			env.fail("macro %s: %d arguments for %d parameters", c.Fun, len(c.Args), len(m.Params))
		}
		n := env.clone()
		n.pkg = m.Pkg
		for i, p := range m.Params {
			n.vars[p] = env.eval(c.Args[i])
			n.shadow[p] = true
			n.tsubst = inferTsubst(n.tsubst, n.vars[p].Type)
		}
		// macro bodies see only their parameters and globals
		r := n.eval(m.Body)
		env.facts = append(env.facts, n.facts...)
		return r
	}
	if g := env.run.eng.ghost(env.pkg, c.Fun); g != nil {
		return env.ghostCall(g, c)
	}
	env.fail("unknown function %q", c.Fun)
	return CVal{}
}

func (env *CEnv) toSeq(a CVal) CVal {
	if a.IsSeq {
		return a
	}
	sl := coreSlice(a.Type)
	if sl == nil {
		env.fail("seq of non-slice %s", a.Type)
	}
	es := env.reg().SortOf(sl.Elem())
	h := env.cur.H(compArr(es), ArrSort(SInt, ArrSort(SInt, es)))
	return CVal{T: Select(h, SliceArr(a.T)), Type: a.Type, IsSeq: true}
}

func (env *CEnv) mapFacts(mc MapComps, dom, card, ref Term) {
	run := env.run
	wit := quote("witness:" + string(mc.K))
	run.declare(wit, "(declare-fun "+wit+" ("+string(ArrSort(mc.K, SBool))+") "+string(mc.K)+")")
	k := run.freshName("k")
	env.facts = append(env.facts,
		Ge(card, IntLit(0)),
		Implies(Gt(card, IntLit(0)), Select(dom, app(mc.K, wit, dom))),
		Term{fmt.Sprintf("(forall ((%s %s)) (! (=> (select %s %s) (> %s 0)) :pattern ((select %s %s))))", k, mc.K, dom.S, k, card.S, dom.S, k), SBool},
		Implies(Eq(ref, IntLit(0)), Eq(card, IntLit(0))))
}

// ghostCall applies an uninterpreted (possibly recursively defined) ghost
// function, instantiated at the sorts of its actual arguments.
func (env *CEnv) ghostCall(g *GhostFunc, c *ECall) CVal {
	eng := env.run.eng
	if len(c.Args) != len(g.Params) {
		env.fail("ghost %s: %d arguments for %d parameters", g.Name, len(c.Args), len(g.Params))
	}
	var args []CVal
	tsub := map[string]types.Type{}
	for i, a := range c.Args {
		v := env.eval(a)
		if g.Params[i].Type.Kind == "slice" && !g.Heap {
			v = env.toSeq(v)
		}
		unifyTypeExpr(g.Params[i].Type, v.Type, tsub)
		args = append(args, v)
	}
	var sorts []string
	var terms []Term
	for i, v := range args {
		if v.T.Sort == "nil" {
			pt := eng.resolveType(g.Params[i].Type, g.Pkg, tsub)
			v.T = env.reg().Zero(env.reg().SortOf(pt))
		}
		sorts = append(sorts, string(v.T.Sort))
		terms = append(terms, v.T)
	}
	rt := eng.resolveType(g.Result, g.Pkg, tsub)
	rs := env.reg().SortOf(rt)
	inst := g.Name
	if len(tsub) > 0 {
		var parts []string
		for _, k := range sortedKeys(tsub) {
			parts = append(parts, k+"="+env.reg().TypeKey(tsub[k]))
		}
		inst += "<" + strings.Join(parts, ",") + ">"
	}
	sym := quote("ghost:" + inst)
	if g.Heap {
		// a heap-reading ghost function is a function of the components it reads
		for _, hc := range env.run.heapGhostComps(g, tsub) {
			sorts = append(sorts, string(hc.sort))
			terms = append(terms, env.cur.H(hc.name, hc.sort))
		}
	}
	if g.Body != nil {
		sorts = append([]string{"Fuel"}, sorts...)
		terms = append([]Term{{env.outerFuel(), "Fuel"}}, terms...)
	}
	if _, dry := env.cur.(*recReader); !dry {
		env.run.declare(sym, fmt.Sprintf("(declare-fun %s (%s) %s)", sym, strings.Join(sorts, " "), rs))
		env.run.usedGhost(g, inst, tsub, sorts, rs)
	}
	return CVal{T: app(rs, sym, terms...), Type: rt}
}

func unifyTypeExpr(te *TypeExpr, t types.Type, out map[string]types.Type) {
	if te == nil || t == nil {
		return
	}
	t = types.Unalias(t)
	switch te.Kind {
	case "ptr":
		if p, ok := under(t).(*types.Pointer); ok {
			unifyTypeExpr(te.Args[0], p.Elem(), out)
		}
	case "slice":
		if s := coreSlice(t); s != nil {
			unifyTypeExpr(te.Args[0], s.Elem(), out)
		}
	case "map":
		if m := coreMap(t); m != nil {
			unifyTypeExpr(te.Args[0], m.Key(), out)
			unifyTypeExpr(te.Args[1], m.Elem(), out)
		}
	case "name":
		if len(te.Args) > 0 {
			if n, ok := t.(*types.Named); ok {
				ta := n.TypeArgs()
				for i := 0; i < ta.Len() && i < len(te.Args); i++ {
					unifyTypeExpr(te.Args[i], ta.At(i), out)
				}
			}
			return
		}
		if te.Pkg == "" && isTypeParamName(te.Name) {
			if _, ok := out[te.Name]; !ok {
				out[te.Name] = t
			}
		}
	}
}

// isTypeParamName: single upper-case letter optionally followed by digits
// (K, V, T, E, S, M, V1, V2) — the convention used in the repository.
func isTypeParamName(n string) bool {
	if n == "" || n[0] < 'A' || n[0] > 'Z' {
		return false
	}
	for _, r := range n[1:] {
		if r < '0' || r > '9' {
			return false
		}
	}
	return true
}

// ---------- goal splitting ----------

// proveGoals splits an expression into skolemised single-conjunct goals.
func (env *CEnv) proveGoals(e Expr) []Goal {
	var out []Goal
	env.split(e, nil, nil, &out)
	return out
}

func (env *CEnv) split(e Expr, decls []string, hyps []Term, out *[]Goal) {
	switch x := e.(type) {
	case *EBinary:
		switch x.Op {
		case "&&":
			env.split(x.X, decls, hyps, out)
			// the left conjunct may be used to prove the right one
			l := env.evalBool(x.X)
			h2 := append(append([]Term(nil), hyps...), env.takeFacts()...)
			h2 = append(h2, l)
			env.split(x.Y, decls, h2, out)
			return
		case "==>":
			h := env.evalBool(x.X)
			h2 := append(append([]Term(nil), hyps...), env.takeFacts()...)
			h2 = append(h2, h)
			env.split(x.Y, decls, h2, out)
			return
		case "<==>":
			env.split(&EBinary{"==>", x.X, x.Y}, decls, hyps, out)
			env.split(&EBinary{"==>", x.Y, x.X}, decls, hyps, out)
			return
		}
	case *ECond:
		c := env.evalBool(x.C)
		f := env.takeFacts()
		env.split(x.A, decls, append(append(append([]Term(nil), hyps...), f...), c), out)
		env.split(x.B, decls, append(append(append([]Term(nil), hyps...), f...), Not(c)), out)
		return
	case *EQuant:
		if x.Forall {
			n := env.clone()
			d2 := append([]string(nil), decls...)
			h2 := append([]Term(nil), hyps...)
			for _, b := range x.Vars {
				name := env.run.freshName("sk." + b.Name)
				cv := env.bindVar(b, name)
				d2 = append(d2, fmt.Sprintf("(declare-const %s %s)", name, cv.T.Sort))
				n.vars[b.Name] = cv
				n.shadow[b.Name] = true
			}
			n.split(x.Body, d2, h2, out)
			return
		}
	case *ELet:
		v := env.eval(x.Val)
		n := env.clone()
		n.vars[x.Name] = v
		n.shadow[x.Name] = true
		n.split(x.Body, decls, append(append([]Term(nil), hyps...), env.takeFacts()...), out)
		return
	case *ECall:
		if m := env.run.eng.macro(env.pkg, x.Fun); m != nil && len(m.Params) == len(x.Args) {
			n := env.clone()
			n.pkg = m.Pkg
			for i, p := range m.Params {
				n.vars[p] = env.eval(x.Args[i])
				n.shadow[p] = true
				n.tsubst = inferTsubst(n.tsubst, n.vars[p].Type)
			}
			n.split(m.Body, decls, append(append([]Term(nil), hyps...), env.takeFacts()...), out)
			return
		}
		if x.Fun == "unchanged" && len(x.Args) == 0 && env.st != nil {
			// every pre-existing heap location has its entry value
			run := env.run
			st := env.st
			for _, name := range sortedKeys(run.compSorts) {
				so := run.compSorts[name]
				cur := st.H(name, so)
				init := env.old.H(run, st.script, name, so)
				if cur.S == init.S {
					continue
				}
				if strings.HasPrefix(name, "G:") {
					*out = append(*out, Goal{Decls: decls, Hyps: hyps, Goal: Eq(cur, init)})
					continue
				}
				r := run.freshName("un")
				rt := Term{r, SInt}
				d2 := append(append([]string(nil), decls...), "(declare-const "+r+" Int)")
				h2 := append(append([]Term(nil), hyps...), Ge(rt, IntLit(0)), Lt(rt, env.old.alloc))
				*out = append(*out, Goal{Decls: d2, Hyps: h2, Goal: Eq(Select(cur, rt), Select(init, rt))})
			}
			return
		}
		if x.Fun == "old" && len(x.Args) == 1 {
			if _, isMacro := x.Args[0].(*ECall); isMacro {
				o := env.oldEnv()
				o.split(x.Args[0], decls, hyps, out)
				return
			}
		}
	}
	g := env.evalBool(e)
	h := append(append([]Term(nil), hyps...), env.takeFacts()...)
	*out = append(*out, Goal{Decls: decls, Hyps: h, Goal: g})
}

// ---------- heap-reading ghost functions ----------

type heapComp struct {
	name string
	sort Sort
}

// recReader records which heap components an expression reads.
type recReader struct {
	seen  map[string]Sort
	order []string
}

func (r *recReader) H(name string, so Sort) Term {
	if _, ok := r.seen[name]; !ok {
		r.seen[name] = so
		r.order = append(r.order, name)
	}
	return Term{quote("rec:" + name), so}
}

// mapReader maps components to fixed terms (bound variables of a definition).
type mapReader struct {
	m   map[string]Term
	run *FuncRun
}

func (r mapReader) H(name string, so Sort) Term {
	if t, ok := r.m[name]; ok {
		return t
	}
	fail("heap ghost function reads component %s that its dry run did not record", name)
	return Term{}
}

var heapGhostCache = map[string][]heapComp{}
var heapGhostBusy = map[string]bool{}

// heapGhostComps computes (by a dry evaluation of the body) the components a
// heap ghost function reads, including those of heap ghosts it calls.
func (run *FuncRun) heapGhostComps(g *GhostFunc, tsub map[string]types.Type) []heapComp {
	key := g.Pkg + "." + g.Name + "|" + tsubKey(run.eng.reg, tsub)
	if c, ok := heapGhostCache[key]; ok {
		return c
	}
	if heapGhostBusy[key] {
		return nil // recursive occurrence during the dry run
	}
	heapGhostBusy[key] = true
	defer delete(heapGhostBusy, key)
	if g.Body == nil {
		fail("heap ghost function %s needs a body", g.Name)
	}
	rec := &recReader{seen: map[string]Sort{}}
	env := &CEnv{run: run, cur: rec, curAlloc: Term{"alloc@0", SInt}, old: &Snapshot{heap: map[string]Term{}, alloc: Term{"alloc@0", SInt}},
		vars: map[string]CVal{}, pkg: g.Pkg, tsubst: tsub, seqBinders: false}
	for _, p := range g.Params {
		ty := run.eng.resolveType(p.Type, g.Pkg, tsub)
		env.vars[p.Name] = CVal{T: Term{quote("dry:" + p.Name), run.eng.reg.SortOf(ty)}, Type: ty}
		env.shadow = map[string]bool{}
	}
	env.eval(g.Body)
	var out []heapComp
	for _, n := range rec.order {
		out = append(out, heapComp{n, rec.seen[n]})
	}
	// a second pass picks up components read only through (now known) callees
	heapGhostCache[key] = out
	rec2 := &recReader{seen: map[string]Sort{}}
	env.cur = rec2
	env.facts = nil
	env.eval(g.Body)
	out = nil
	for _, n := range rec2.order {
		out = append(out, heapComp{n, rec2.seen[n]})
	}
	sort.Slice(out, func(i, j int) bool { return out[i].name < out[j].name })
	heapGhostCache[key] = out
	return out
}
