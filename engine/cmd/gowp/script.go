package main

// Script assembly: ghost definitions, axioms and lemmas, final SMT-LIB text.

import (
	"fmt"
	"go/types"
	"strings"
)

type ghostInst struct {
	g     *GhostFunc
	inst  string
	tsub  map[string]types.Type
	sorts []string
	rs    Sort
}

var runGhosts = map[*FuncRun][]*ghostInst{}
var runGhostSeen = map[*FuncRun]map[string]bool{}
var runAxiomSeen = map[*FuncRun]map[string]bool{}

func (run *FuncRun) usedGhost(g *GhostFunc, inst string, tsub map[string]types.Type, sorts []string, rs Sort) {
	if runGhostSeen[run] == nil {
		runGhostSeen[run] = map[string]bool{}
	}
	if runGhostSeen[run][inst] {
		return
	}
	runGhostSeen[run][inst] = true
	ts := map[string]types.Type{}
	for k, v := range tsub {
		ts[k] = v
	}
	runGhosts[run] = append(runGhosts[run], &ghostInst{g, inst, ts, sorts, rs})
}

// pureEnv evaluates closed formulas (axioms, ghost bodies) without a state.
func (run *FuncRun) pureEnv(pkg string, tsub map[string]types.Type) *CEnv {
	sn := run.entry
	if sn == nil {
		sn = &Snapshot{heap: map[string]Term{}, alloc: Term{"alloc@0", SInt}}
		run.declare("alloc@0", "(declare-const alloc@0 Int)")
		run.entry = sn
	}
	return &CEnv{run: run, cur: snapReader{sn, run, nil}, curAlloc: sn.alloc, old: sn, vars: map[string]CVal{}, pkg: pkg, tsubst: tsub, seqBinders: true}
}

// finalize emits ghost definitions and the axioms/lemmas that mention the
// ghost functions used by this run, to a fixpoint.
func (run *FuncRun) finalize(excludeLemma string) {
	eng := run.eng
	if runAxiomSeen[run] == nil {
		runAxiomSeen[run] = map[string]bool{}
	}
	done := 0
	for iter := 0; iter < 10; iter++ {
		gs := runGhosts[run]
		if done == len(gs) && iter > 0 {
			break
		}
		for _, gi := range gs[done:] {
			run.emitGhostDef(gi)
		}
		done = len(gs)
		for _, gi := range append([]*ghostInst(nil), runGhosts[run]...) {
			for _, ax := range eng.axioms {
				if ax.Name == excludeLemma {
					break // lemmas may use only earlier lemmas
				}
				if !mentions(ax.Expr, gi.g.Name) {
					continue
				}
				key := ax.Name + "|" + tsubKey(eng.reg, gi.tsub)
				if runAxiomSeen[run][key] {
					continue
				}
				runAxiomSeen[run][key] = true
				env := run.pureEnv(ax.Pkg, gi.tsub)
				t := env.evalBool(ax.Expr)
				run.usedAxioms[ax.Name] = true
				run.declare("axiom:"+key, "(assert "+t.S+") ; "+ax.Name)
			}
		}
	}
}

func tsubKey(reg *Registry, m map[string]types.Type) string {
	var parts []string
	for _, k := range sortedKeys(m) {
		parts = append(parts, k+"="+reg.TypeKey(m[k]))
	}
	return strings.Join(parts, ",")
}

func (run *FuncRun) emitGhostDef(gi *ghostInst) {
	g := gi.g
	if g.Body == nil {
		return
	}
	eng := run.eng
	env := run.pureEnv(g.Pkg, gi.tsub)
	fv := run.freshName("g.fuel")
	env.fuel = fv
	binders := []string{"(" + fv + " Fuel)"}
	var names []string
	for i, p := range g.Params {
		ty := eng.resolveType(p.Type, g.Pkg, gi.tsub)
		name := run.freshName("g." + p.Name)
		so := Sort(gi.sorts[i+1]) // sorts[0] is Fuel
		binders = append(binders, fmt.Sprintf("(%s %s)", name, so))
		names = append(names, name)
		env.vars[p.Name] = CVal{T: Term{name, so}, Type: ty, IsSeq: p.Type.Kind == "slice" && !g.Heap}
	}
	if g.Heap {
		m := map[string]Term{}
		for _, hc := range run.heapGhostComps(g, gi.tsub) {
			name := run.freshName("g.heap")
			binders = append(binders, fmt.Sprintf("(%s %s)", name, hc.sort))
			names = append(names, name)
			m[hc.name] = Term{name, hc.sort}
		}
		env.cur = mapReader{m, run}
		env.seqBinders = false
	}
	body := env.eval(g.Body)
	sym := quote("ghost:" + gi.inst)
	call := "(" + sym + " (FS " + fv + ") " + strings.Join(names, " ") + ")"
	callLow := "(" + sym + " " + fv + " " + strings.Join(names, " ") + ")"
	run.declare("ghostdef:"+gi.inst, fmt.Sprintf("(assert (forall (%s) (! (= %s %s) :pattern (%s))))", strings.Join(binders, " "), call, body.T.S, call))
	run.declare("ghostsyn:"+gi.inst, fmt.Sprintf("(assert (forall (%s) (! (= %s %s) :pattern (%s))))", strings.Join(binders, " "), call, callLow, call))
}

// mentions reports whether an expression calls the named function.
func mentions(e Expr, name string) bool {
	found := false
	var walk func(e Expr)
	walk = func(e Expr) {
		if found || e == nil {
			return
		}
		switch x := e.(type) {
		case *ECall:
			if x.Fun == name {
				found = true
				return
			}
			for _, a := range x.Args {
				walk(a)
			}
		case *EUnary:
			walk(x.X)
		case *EBinary:
			walk(x.X)
			walk(x.Y)
		case *ECond:
			walk(x.C)
			walk(x.A)
			walk(x.B)
		case *EIndex:
			walk(x.X)
			walk(x.I)
		case *EField:
			walk(x.X)
		case *EQuant:
			walk(x.Body)
			for _, tr := range x.Triggers {
				for _, t := range tr {
					walk(t)
				}
			}
		case *ELet:
			walk(x.Val)
			walk(x.Body)
		}
	}
	walk(e)
	return found
}

// LemmaRun generates the proof obligations of one lemma.
func (eng *Engine) LemmaRun(ax *Axiom) (run *FuncRun) {
	run = &FuncRun{eng: eng, key: "lemma:" + ax.Name, decls: map[string]string{}, compSorts: map[string]Sort{}, epochInfo: map[int]*epochInfo{}, checkSeen: map[string]int{}, checkSkip: map[string]int{},
		unknownCalls: map[string]bool{}, assumedFrames: map[string]bool{}, usedContracts: map[string]bool{}, usedExternals: map[string]bool{}, usedAxioms: map[string]bool{}}
	defer func() {
		if r := recover(); r != nil {
			if ee, ok := r.(engineError); ok {
				run.aborted = ee.msg
				return
			}
			panic(r)
		}
	}()
	env := run.pureEnv(ax.Pkg, nil)
	st := &State{run: run, script: &Script{}, heap: map[string]Term{}, alloc: Term{"alloc@0", SInt}}
	env.st = st
	q, isQ := ax.Expr.(*EQuant)
	if ax.Induct != "" {
		if !isQ || !q.Forall {
			fail("lemma %s: induction needs a top-level forall", ax.Name)
		}
		// skolemise all variables
		n := env.clone()
		var decls []string
		var nsk Term
		n.seqBinders = true
		for _, b := range q.Vars {
			name := run.freshName("sk." + b.Name)
			cv := n.bindVar(b, name)
			decls = append(decls, fmt.Sprintf("(declare-const %s %s)", name, cv.T.Sort))
			n.vars[b.Name] = cv
			if b.Name == ax.Induct {
				nsk = cv.T
			}
		}
		if nsk.S == "" {
			fail("lemma %s: induction variable %s not bound", ax.Name, ax.Induct)
		}
		// induction hypothesis: the statement at n-1 for all other variables
		ih := env.clone()
		ih.vars[ax.Induct] = CVal{T: Sub(nsk, IntLit(1)), Type: tInt}
		var others []Binder
		for _, b := range q.Vars {
			if b.Name != ax.Induct {
				others = append(others, b)
			}
		}
		var ihT Term
		if len(others) > 0 {
			ihT = ih.evalSeqQuant(&EQuant{Forall: true, Vars: others, Triggers: nil, Body: q.Body})
		} else {
			ihT = ih.evalBool(q.Body)
		}
		var goals []Goal
		n.seqBinders = true
		n.split(q.Body, decls, []Term{Implies(Gt(nsk, IntLit(0)), ihT)}, &goals)
		run.addGoals(st, "lemma", "", goals, ax.Src, ax.Where)
	} else {
		env.seqBinders = true
		goals := env.proveGoals(ax.Expr)
		run.addGoals(st, "lemma", "", goals, ax.Src, ax.Where)
	}
	run.finalize(ax.Name)
	return run
}

// Assemble produces the full SMT-LIB text of an obligation.
func (run *FuncRun) Assemble(o *Obligation) string {
	var b strings.Builder
	b.WriteString("(set-logic ALL)\n")
	for _, l := range run.eng.reg.Preamble() {
		b.WriteString(l)
		b.WriteByte('\n')
	}
	for _, name := range run.declOrder {
		b.WriteString(run.decls[name])
		b.WriteByte('\n')
	}
	seen := map[string]bool{}
	for _, l := range o.Lines {
		if strings.HasPrefix(l, "(assert ") {
			if seen[l] {
				continue
			}
			seen[l] = true
		}
		b.WriteString(l)
		b.WriteByte('\n')
	}
	b.WriteString("(check-sat)\n")
	return b.String()
}
