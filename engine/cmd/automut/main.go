// automut: a plain syntactic mutant generator for the non-test sources of a Go
// module, used by /verif/selftest/automut.sh to measure the checks against
// changes nobody hand-picked. One mutant = one file with one edit; each is
// written as <out>/m<NNNN>/{<file>, ov.json, patch.diff, meta.json}. ov.json is
// a `go build -overlay` file mapping the repository path to the mutated copy,
// so neither the repository nor /verif is modified when a mutant is tried.
//
//	automut -repo /repo -out /verif/.work/automut [-files a.go,b.go]
package main

import (
	"encoding/json"
	"flag"
	"fmt"
	"go/ast"
	"go/parser"
	"go/token"
	"os"
	"os/exec"
	"path/filepath"
	"sort"
	"strconv"
	"strings"
)

type edit struct {
	start, end int
	repl       string
	op         string
	fn         string
	line       int
}

var binSwap = map[token.Token][]string{
	token.EQL: {"!="}, token.NEQ: {"=="},
	token.LSS: {"<=", ">"}, token.LEQ: {"<"}, token.GTR: {">=", "<"}, token.GEQ: {">"},
	token.LAND: {"||"}, token.LOR: {"&&"},
	token.ADD: {"-"}, token.SUB: {"+"},
}

var msgFuncs = map[string]bool{"New": true, "Errorf": true, "Sprintf": true, "Wrapf": true, "Newf": true, "Debug": true, "debug": true, "Fprintf": true, "Printf": true, "Sprint": true}

func funcName(d *ast.FuncDecl) string {
	if d.Recv != nil && len(d.Recv.List) > 0 {
		t := d.Recv.List[0].Type
		star := ""
		if s, ok := t.(*ast.StarExpr); ok {
			t, star = s.X, "*"
		}
		switch x := t.(type) {
		case *ast.Ident:
			return "(" + star + x.Name + ")." + d.Name.Name
		case *ast.IndexExpr:
			if id, ok := x.X.(*ast.Ident); ok {
				return "(" + star + id.Name + ")." + d.Name.Name
			}
		case *ast.IndexListExpr:
			if id, ok := x.X.(*ast.Ident); ok {
				return "(" + star + id.Name + ")." + d.Name.Name
			}
		}
	}
	return d.Name.Name
}

func mutantsOf(fset *token.FileSet, f *ast.File, src []byte) []edit {
	var out []edit
	off := func(p token.Pos) int { return fset.Position(p).Offset }
	for _, decl := range f.Decls {
		fd, ok := decl.(*ast.FuncDecl)
		if !ok || fd.Body == nil {
			// struct tags: dropping omitempty / inline is a realistic slip
			ast.Inspect(decl, func(n ast.Node) bool {
				if fl, ok := n.(*ast.Field); ok && fl.Tag != nil {
					for _, opt := range []string{",omitempty", ",inline"} {
						if i := strings.Index(fl.Tag.Value, opt); i >= 0 {
							s := off(fl.Tag.Pos()) + i
							out = append(out, edit{s, s + len(opt), "", "tag-drop" + opt, "(type)", fset.Position(fl.Pos()).Line})
						}
					}
				}
				return true
			})
			continue
		}
		name := funcName(fd)
		add := func(n ast.Node, s, e int, repl, op string) {
			if string(src[s:e]) == repl {
				return // not a change
			}
			out = append(out, edit{s, e, repl, op, name, fset.Position(n.Pos()).Line})
		}
		skipLit := map[*ast.BasicLit]bool{}
		ast.Inspect(fd.Body, func(n ast.Node) bool {
			switch x := n.(type) {
			case *ast.CallExpr:
				fn := ""
				switch c := x.Fun.(type) {
				case *ast.SelectorExpr:
					fn = c.Sel.Name
				case *ast.Ident:
					fn = c.Name
				}
				if msgFuncs[fn] || fn == "panic" {
					for _, a := range x.Args {
						ast.Inspect(a, func(m ast.Node) bool {
							if bl, ok := m.(*ast.BasicLit); ok {
								skipLit[bl] = true
							}
							return true
						})
					}
				}
			case *ast.BinaryExpr:
				for _, r := range binSwap[x.Op] {
					add(x, off(x.OpPos), off(x.OpPos)+len(x.Op.String()), r, "binop "+x.Op.String()+" -> "+r)
				}
			case *ast.UnaryExpr:
				if x.Op == token.NOT {
					add(x, off(x.OpPos), off(x.OpPos)+1, "", "drop !")
				}
			case *ast.IfStmt:
				s, e := off(x.Cond.Pos()), off(x.Cond.End())
				add(x, s, e, "!("+string(src[s:e])+")", "negate if")
				add(x, s, e, "false", "if false")
				add(x, s, e, "true", "if true")
			case *ast.ForStmt:
				if x.Cond != nil {
					s, e := off(x.Cond.Pos()), off(x.Cond.End())
					add(x, s, e, "false", "loop never runs")
				}
			case *ast.BlockStmt:
				for _, st := range x.List {
					s, e := off(st.Pos()), off(st.End())
					switch y := st.(type) {
					case *ast.ExprStmt:
						add(st, s, e, "", "delete call statement")
					case *ast.AssignStmt:
						if y.Tok != token.DEFINE {
							add(st, s, e, "", "delete assignment")
						}
					case *ast.IncDecStmt:
						add(st, s, e, "", "delete inc/dec")
					case *ast.DeferStmt:
						add(st, s, e, "", "delete defer")
					case *ast.BranchStmt:
						if y.Label == nil {
							switch y.Tok {
							case token.CONTINUE:
								add(st, s, e, "break", "continue -> break")
								add(st, s, e, "", "delete continue")
							case token.BREAK:
								add(st, s, e, "continue", "break -> continue")
								add(st, s, e, "", "delete break")
							}
						}
					case *ast.ReturnStmt:
						for _, r := range y.Results {
							if id, ok := r.(*ast.Ident); ok && (id.Name == "err" || strings.HasSuffix(id.Name, "Err")) {
								add(st, off(id.Pos()), off(id.End()), "nil", "return nil instead of "+id.Name)
							}
						}
					case *ast.IfStmt:
						// delete a whole guard: if cond { return ... }
						if y.Else == nil && y.Init == nil && len(y.Body.List) == 1 {
							if _, isRet := y.Body.List[0].(*ast.ReturnStmt); isRet {
								add(st, s, e, "", "delete guard")
							}
						}
					}
				}
			case *ast.CaseClause:
				// drop one alternative of a multi-valued case
				if len(x.List) > 1 {
					for i, alt := range x.List {
						s, e := off(alt.Pos()), off(alt.End())
						if i+1 < len(x.List) {
							e = off(x.List[i+1].Pos())
						} else {
							s = off(x.List[i-1].End())
						}
						add(x, s, e, "", "drop case alternative")
					}
				}
			case *ast.BasicLit:
				if skipLit[x] {
					return true
				}
				s, e := off(x.Pos()), off(x.End())
				switch x.Kind {
				case token.INT:
					if v, err := strconv.Atoi(x.Value); err == nil {
						add(x, s, e, strconv.Itoa(v+1), "int +1")
						if v != 0 {
							add(x, s, e, "0", "int -> 0")
						}
					}
				case token.STRING:
					if x.Value == `""` {
						add(x, s, e, `"mutant"`, `"" -> "mutant"`)
					} else if strings.HasPrefix(x.Value, `"`) {
						add(x, s, e, `""`, "string -> \"\"")
						if u, err := strconv.Unquote(x.Value); err == nil && len(u) > 1 {
							add(x, s, e, strconv.Quote(strings.ToUpper(u[:1])+u[1:]), "string first letter upper-cased")
						}
					}
				}
			case *ast.Ident:
				if x.Name == "true" || x.Name == "false" {
					r := "true"
					if x.Name == "true" {
						r = "false"
					}
					add(x, off(x.Pos()), off(x.End()), r, x.Name+" -> "+r)
				}
			}
			return true
		})
	}
	return out
}

func main() {
	repo := flag.String("repo", "/repo", "module root")
	out := flag.String("out", "", "output directory")
	only := flag.String("files", "", "comma-separated files (relative to the module root); default: all non-test sources")
	flag.Parse()
	if *out == "" {
		fmt.Fprintln(os.Stderr, "usage: automut -out <dir> [-repo /repo] [-files a.go,b/c.go]")
		os.Exit(2)
	}
	var files []string
	if *only != "" {
		files = strings.Split(*only, ",")
	} else {
		filepath.Walk(*repo, func(p string, info os.FileInfo, err error) error {
			if err != nil {
				return nil
			}
			if info.IsDir() && (info.Name() == ".git" || info.Name() == "fixtures" || info.Name() == "testdata") {
				return filepath.SkipDir
			}
			b := info.Name()
			if strings.HasSuffix(b, ".go") && !strings.HasSuffix(b, "_test.go") && b != "contracts_verif.go" && b != "doc.go" {
				rel, _ := filepath.Rel(*repo, p)
				files = append(files, rel)
			}
			return nil
		})
	}
	sort.Strings(files)
	os.MkdirAll(*out, 0o755)
	n := 0
	for _, rel := range files {
		path := filepath.Join(*repo, rel)
		src, err := os.ReadFile(path)
		if err != nil {
			fmt.Fprintln(os.Stderr, err)
			continue
		}
		fset := token.NewFileSet()
		f, err := parser.ParseFile(fset, path, src, parser.ParseComments)
		if err != nil {
			fmt.Fprintln(os.Stderr, err)
			continue
		}
		for _, e := range mutantsOf(fset, f, src) {
			n++
			dir := filepath.Join(*out, fmt.Sprintf("m%04d", n))
			os.MkdirAll(filepath.Join(dir, filepath.Dir(rel)), 0o755)
			mut := append(append(append([]byte{}, src[:e.start]...), e.repl...), src[e.end:]...)
			mpath := filepath.Join(dir, rel)
			os.WriteFile(mpath, mut, 0o644)
			ov, _ := json.Marshal(map[string]any{"Replace": map[string]string{path: mpath}})
			os.WriteFile(filepath.Join(dir, "ov.json"), ov, 0o644)
			diff, _ := exec.Command("diff", "-u", "--label", "a/"+rel, "--label", "b/"+rel, path, mpath).Output()
			os.WriteFile(filepath.Join(dir, "patch.diff"), diff, 0o644)
			meta, _ := json.MarshalIndent(map[string]any{"id": fmt.Sprintf("m%04d", n), "file": rel, "line": e.line, "func": e.fn, "op": e.op,
				"orig": string(src[e.start:e.end]), "repl": e.repl}, "", " ")
			os.WriteFile(filepath.Join(dir, "meta.json"), meta, 0o644)
		}
	}
	fmt.Printf("automut: %d mutants of %d files in %s\n", n, len(files), *out)
}
