package c11

// Bounded fallback for C11 (not proof): the accept <=> specification rule of
// matrix permutation validation, enumerated over small matrices, adjustments
// and permutations, against InterpolateMatrixPermutation on the real code; a
// rejected permutation must leave the step unmodified.

import (
	"encoding/json"
	"fmt"
	"math/rand"
	"os"
	"strings"
	"testing"

	pipeline "github.com/buildkite/go-pipeline"
)

var dims = []string{"os", "arch", "zz"}
var vals = []string{"a", "b", "c"}

type adj struct {
	with map[string]string
	skip any
	null bool // a null entry in the adjustments list
}

func shouldSkip(s any) bool {
	switch x := s.(type) {
	case bool:
		return x
	case nil:
		return false
	}
	return true // any other value (a reason string, ...) means skip
}

// spec: accepted iff the permutation names exactly the setup's dimensions, every
// adjustment is well formed (same dimension set as the setup), no adjustment
// whose `with` equals the permutation skips, and either every value is a setup
// value or some adjustment's `with` equals the permutation.
func spec(setup map[string][]string, adjs []adj, perm map[string]string) bool {
	if len(perm) != len(setup) {
		return false
	}
	for d := range perm {
		if _, ok := setup[d]; !ok {
			return false
		}
	}
	valid := true
	for d, v := range perm {
		found := false
		for _, sv := range setup[d] {
			if sv == v {
				found = true
			}
		}
		if !found {
			valid = false
		}
	}
	for _, a := range adjs {
		if a.null || len(a.with) != len(setup) {
			return false
		}
		for d := range a.with {
			if _, ok := setup[d]; !ok {
				return false
			}
		}
	}
	anyMatch := false
	for _, a := range adjs {
		match := true
		for d, v := range perm {
			if a.with[d] != v {
				match = false
			}
		}
		if match {
			if shouldSkip(a.skip) {
				return false // a matching adjustment that skips rejects, wherever it stands
			}
			anyMatch = true
		}
	}
	if anyMatch {
		return true
	}
	return valid
}

func TestC11(t *testing.T) {
	cases, failures := 0, 0
	thorough := os.Getenv("VERIF_TIER") == "thorough"
	var setups []map[string][]string
	lists := [][]string{{}, {"a"}, {"a", "b"}}
	for _, l1 := range lists {
		setups = append(setups, map[string][]string{"": l1}, map[string][]string{"os": l1})
		for _, l2 := range lists {
			setups = append(setups, map[string][]string{"os": l1, "arch": l2})
		}
	}
	skips := []any{nil, true, false, "reason", "", "false"}
	var withs []map[string]string
	withs = append(withs, map[string]string{}, map[string]string{"": "a"}, map[string]string{"": "c"})
	for _, v := range vals {
		withs = append(withs, map[string]string{"os": v}, map[string]string{"zz": v})
		for _, w := range vals {
			withs = append(withs, map[string]string{"os": v, "arch": w})
			if thorough || v != "c" {
				withs = append(withs, map[string]string{"os": v, "zz": w})
			}
		}
	}
	var adjLists [][]adj
	adjLists = append(adjLists, nil)
	for _, w := range withs {
		for _, s := range skips {
			adjLists = append(adjLists, []adj{{with: w, skip: s}})
		}
	}
	adjLists = append(adjLists, []adj{{null: true}})
	for _, w := range withs {
		// the same `with` twice, skipping first or second; a null entry after a good one
		adjLists = append(adjLists, []adj{{with: w}, {with: w, skip: true}}, []adj{{with: w, skip: true}, {with: w}}, []adj{{with: w}, {null: true}})
	}
	if thorough {
		for _, w1 := range withs[:12] {
			for _, w2 := range withs[:12] {
				adjLists = append(adjLists, []adj{{with: w1, skip: true}, {with: w2}}, []adj{{with: w1}, {with: w2, skip: "x"}})
			}
		}
	} else {
		for i, w1 := range withs {
			w2 := withs[(i*7+3)%len(withs)]
			adjLists = append(adjLists, []adj{{with: w1, skip: true}, {with: w2}}, []adj{{with: w1}, {with: w2, skip: true}})
		}
	}
	perms := append([]map[string]string{}, withs...)
	for _, setup := range setups {
		for _, adjs := range adjLists {
			for _, perm := range perms {
				if len(perm) == 0 {
					continue // the empty permutation is the separate no-op rule
				}
				runCase(t, setup, adjs, perm, &cases, &failures)
			}
		}
	}
	// beyond the exhaustive scope: up to three named dimensions, 0-3 values each, up to four adjustments
	// (well formed, wrong arity, unknown dimension, null), permutations drawn from the setup, from an
	// adjustment, or at random
	rounds := 20000
	if thorough {
		rounds = 400000
	}
	var sd int64 = 1
	fmt.Sscan(os.Getenv("VERIF_SEED"), &sd)
	r := rand.New(rand.NewSource(sd))
	// names and values that collide when a name and a value are glued with a separator
	// ("os" + ":" + "linux:arm64" == "os:linux" + ":" + "arm64"), for every separator one might pick
	names := []string{"os", "arch", "zz", "x.y-z_1", "os:linux", "os=linux", "os/linux", "os linux", "os\x00linux", "os,linux", "os|linux", "os.linux"}
	values := []string{"a", "b", "c", "", "{{matrix.os}}", "arm64", "linux:arm64", "linux=arm64", "linux/arm64", "linux arm64", "linux\x00arm64", "linux,arm64", "linux|arm64", "linux.arm64"}
	for i := 0; i < rounds; i++ {
		nd := 1 + r.Intn(3)
		var ds []string
		for _, j := range r.Perm(len(names))[:nd] {
			ds = append(ds, names[j])
		}
		setup := map[string][]string{}
		for _, d := range ds {
			l := []string{}
			for k := r.Intn(4); k > 0; k-- {
				l = append(l, values[r.Intn(len(values))])
			}
			setup[d] = l
		}
		if i%3 == 0 {
			// the colliding pair: dimension "os" holds "linux<sep>arm64", dimension "os<sep>linux" does not hold "arm64"
			sep := []string{":", "=", "/", " ", "\x00", ",", "|", "."}[r.Intn(8)]
			ds = []string{"os", "os" + sep + "linux"}
			setup = map[string][]string{"os": {"darwin", "linux" + sep + "arm64"}, "os" + sep + "linux": {"glibc", "musl"}}
		}
		tuple := func(mode int) map[string]string {
			w := map[string]string{}
			for _, d := range ds {
				if l := setup[d]; mode == 0 && len(l) > 0 {
					w[d] = l[r.Intn(len(l))]
				} else {
					w[d] = values[r.Intn(len(values))]
				}
			}
			switch r.Intn(12) {
			case 0:
				delete(w, ds[r.Intn(len(ds))]) // wrong arity
			case 1:
				delete(w, ds[r.Intn(len(ds))])
				w["nope"] = []string{"a", "", ""}[r.Intn(3)] // right arity, unknown dimension (an empty value reads like an absent key of a map)
			case 2:
				w["extra"] = "a"
			}
			return w
		}
		var adjs []adj
		for k := r.Intn(5); k > 0; k-- {
			if r.Intn(15) == 0 {
				adjs = append(adjs, adj{null: true})
				continue
			}
			adjs = append(adjs, adj{with: tuple(r.Intn(2)), skip: skips[r.Intn(len(skips))]})
		}
		var perm map[string]string
		if len(adjs) > 0 && r.Intn(2) == 0 {
			a := adjs[r.Intn(len(adjs))]
			perm = map[string]string{}
			for d, v := range a.with {
				perm[d] = v
			}
		} else {
			perm = tuple(r.Intn(2))
		}
		if i%3 == 1 && len(adjs) > 0 && len(ds) > 1 {
			// an adjustment's tuple with one dimension replaced by an unknown one whose value is empty
			if a := adjs[r.Intn(len(adjs))]; !a.null && len(a.with) == len(ds) {
				perm = map[string]string{}
				for d, v := range a.with {
					perm[d] = v
				}
				delete(perm, ds[r.Intn(len(ds))])
				if len(perm) == len(ds)-1 {
					perm["cpu"] = ""
				}
			}
		}
		if i%3 == 0 && r.Intn(2) == 0 {
			// the value that only exists glued: "arm64" for the second dimension
			perm = map[string]string{ds[0]: setup[ds[0]][r.Intn(2)], ds[1]: "arm64"}
		}
		if len(perm) == 0 {
			continue
		}
		runCase(t, setup, adjs, perm, &cases, &failures)
	}
	// the empty permutation is a no-op without a matrix
	s := &pipeline.CommandStep{Command: "c"}
	if err := s.InterpolateMatrixPermutation(nil); err != nil || s.Command != "c" {
		failures++
		t.Errorf("empty permutation without a matrix: %v", err)
	}
	cases++
	fmt.Printf("BOUNDED name=c11-permutations cases=%d failures=%d\n", cases, failures)
}

// runCase applies one permutation to a fresh step carrying the matrix and compares the outcome with spec.
func runCase(t *testing.T, setup map[string][]string, adjs []adj, perm map[string]string, cases, failures *int) {
	m := &pipeline.Matrix{Setup: pipeline.MatrixSetup{}}
	for d, l := range setup {
		m.Setup[d] = append(make([]string, 0), l...) // an empty dimension is a known dimension
	}
	for _, a := range adjs {
		if a.null {
			m.Adjustments = append(m.Adjustments, nil)
			continue
		}
		w := pipeline.MatrixAdjustmentWith{}
		for d, v := range a.with {
			w[d] = v
		}
		m.Adjustments = append(m.Adjustments, &pipeline.MatrixAdjustment{With: w, Skip: a.skip})
	}
	step := &pipeline.CommandStep{Command: "echo {{matrix}}", Label: "l", Matrix: m, Env: map[string]string{"K": "v"}}
	before, _ := json.Marshal(step)
	p := pipeline.MatrixPermutation{}
	for d, v := range perm {
		p[d] = v
	}
	var err error
	func() {
		defer func() {
			if r := recover(); r != nil {
				err = fmt.Errorf("panic: %v", r)
				*failures++
				t.Errorf("setup %v adjs %v perm %v: panic %v", setup, adjs, perm, r)
			}
		}()
		err = step.InterpolateMatrixPermutation(p)
	}()
	*cases++
	want := spec(setup, adjs, perm)
	// an accepted permutation may still fail to interpolate ({{matrix}} on named dimensions)
	accepted := err == nil || !isValidationError(err)
	if accepted != want {
		*failures++
		if *failures < 12 {
			t.Errorf("setup %v adjustments %v permutation %v: accepted=%v (err=%v), specification says %v", setup, adjs, perm, accepted, err, want)
		}
	}
	if !accepted {
		after, _ := json.Marshal(step)
		if string(before) != string(after) {
			*failures++
			t.Errorf("rejected permutation modified the step: %s -> %s", before, after)
		}
	}
}

func isValidationError(err error) bool {
	for _, m := range []string{"non-empty permutation but matrix is nil", "permutation has wrong length", "permutation has unknown dimension", "adjustment has wrong length", "adjustment has unknown dimension", "permutation is skipped by adjustment", "permutation is neither a valid matrix combination nor an adjustment"} {
		if strings.HasPrefix(err.Error(), m) {
			return true
		}
	}
	return false
}
