package c07

// Bounded stand-in for the graph-shaped part of C07 (not proof): random
// anchor/alias/merge graphs built directly as yaml.Node graphs (plus a few
// parsed documents), decoded with ordered.DecodeYAML and compared with an
// independent reference implementation of the YAML merge rules; back-edges
// (self and mutual cycles through values, sequences, keys and merges) must be
// rejected (value cycles) or tolerated (merge cycles) within a time bound.

import (
	"fmt"
	"math/rand"
	"os"
	"reflect"
	"strings"
	"testing"
	"time"

	"github.com/buildkite/go-pipeline/ordered"
	"gopkg.in/yaml.v3"
)

func seed() int64 {
	var s int64 = 1
	fmt.Sscan(os.Getenv("VERIF_SEED"), &s)
	return s
}

func scalar(v string) *yaml.Node { return &yaml.Node{Kind: yaml.ScalarNode, Tag: "!!str", Value: v} }
func alias(t *yaml.Node) *yaml.Node {
	name := t.Anchor
	if name == "" {
		name = "a"
	}
	return &yaml.Node{Kind: yaml.AliasNode, Alias: t, Value: name}
}

// anchorNames: few names, so that an anchor name is redefined often (YAML allows it; an alias is
// bound to a node, not to a name)
var anchorNames = []string{"a", "b", "base"}

func mergeKey() *yaml.Node { return &yaml.Node{Kind: yaml.ScalarNode, Tag: "!!merge", Value: "<<"} }

// ---- reference semantics ----

type cycleErr struct{}

func (cycleErr) Error() string { return "value cycle" }

// refValue: the content of a node as plain Go values (maps unordered).
func refValue(n *yaml.Node, path map[*yaml.Node]bool, budget *int) (any, error) {
	if n == nil {
		return nil, nil
	}
	*budget--
	if *budget < 0 {
		return nil, fmt.Errorf("expansion budget exceeded")
	}
	if path[n] {
		return nil, cycleErr{}
	}
	path[n] = true
	defer delete(path, n)
	switch n.Kind {
	case yaml.ScalarNode:
		var v any
		if err := n.Decode(&v); err != nil {
			return nil, err
		}
		return v, nil
	case yaml.AliasNode:
		return refValue(n.Alias, path, budget)
	case yaml.SequenceNode:
		out := make([]any, 0, len(n.Content))
		for _, c := range n.Content {
			v, err := refValue(c, path, budget)
			if err != nil {
				return nil, err
			}
			out = append(out, v)
		}
		return out, nil
	case yaml.MappingNode:
		pairs, err := refPairs(n, map[*yaml.Node]bool{})
		if err != nil {
			return nil, err
		}
		out := map[string]any{}
		for _, p := range pairs {
			v, err := refValue(p.val, path, budget)
			if err != nil {
				return nil, err
			}
			out[p.key] = v
		}
		return out, nil
	}
	return nil, fmt.Errorf("unsupported kind")
}

type pair struct {
	key string
	val *yaml.Node
}

func keyOf(k *yaml.Node) (string, error) {
	for k.Kind == yaml.AliasNode {
		k = k.Alias
	}
	if k.Kind != yaml.ScalarNode {
		return "", fmt.Errorf("non-scalar key")
	}
	return k.Value, nil
}

// refPairs: the key/value-node pairs of a mapping (or of a merge source: alias,
// sequence of sources) after applying the merge rules: explicit keys first,
// then each merge source in document order, first occurrence of a key wins. A
// source already merged into this mapping is skipped (merge cycles tolerated).
func refPairs(n *yaml.Node, merged map[*yaml.Node]bool) ([]pair, error) {
	if n == nil || merged[n] {
		return nil, nil
	}
	merged[n] = true
	switch n.Kind {
	case yaml.AliasNode:
		return refPairs(n.Alias, merged)
	case yaml.SequenceNode:
		var out []pair
		have := map[string]bool{}
		for _, e := range n.Content {
			ps, err := refPairs(e, merged)
			if err != nil {
				return nil, err
			}
			for _, p := range ps {
				if !have[p.key] {
					have[p.key] = true
					out = append(out, p)
				}
			}
		}
		return out, nil
	case yaml.MappingNode:
		var out []pair
		have := map[string]bool{}
		for i := 0; i+1 < len(n.Content); i += 2 {
			if n.Content[i].Tag == "!!merge" {
				continue
			}
			k, err := keyOf(n.Content[i])
			if err != nil {
				return nil, err
			}
			have[k] = true
			out = append(out, pair{k, n.Content[i+1]})
		}
		for i := 0; i+1 < len(n.Content); i += 2 {
			if n.Content[i].Tag != "!!merge" {
				continue
			}
			ps, err := refPairs(n.Content[i+1], merged)
			if err != nil {
				return nil, err
			}
			for _, p := range ps {
				if !have[p.key] {
					have[p.key] = true
					out = append(out, p)
				}
			}
		}
		return out, nil
	}
	return nil, fmt.Errorf("cannot merge kind %d", n.Kind)
}

// ---- generator ----

type gen struct {
	r       *rand.Rand
	maps    []*yaml.Node // anchored mappings created so far (merge / alias targets)
	nodes   []*yaml.Node // every anchored node created so far
	srcSeqs []*yaml.Node // sequences of merge sources created so far
	uniq    int
}

func (g *gen) key() *yaml.Node {
	// few distinct keys so that sources collide; sometimes an alias to a scalar
	k := scalar(fmt.Sprintf("k%d", g.r.Intn(5)))
	if g.r.Intn(8) == 0 {
		return alias(k)
	}
	return k
}

func (g *gen) value(depth int) *yaml.Node {
	switch c := g.r.Intn(10); {
	case c < 3 && len(g.nodes) > 0:
		return alias(g.nodes[g.r.Intn(len(g.nodes))])
	case c < 5 && depth > 0:
		return g.mapping(depth - 1)
	case c < 6 && depth > 0:
		s := &yaml.Node{Kind: yaml.SequenceNode, Tag: "!!seq"}
		for i := g.r.Intn(3); i >= 0; i-- {
			s.Content = append(s.Content, g.value(depth-1))
		}
		s.Anchor = anchorNames[g.r.Intn(len(anchorNames))]
		g.nodes = append(g.nodes, s)
		return s
	}
	g.uniq++
	return scalar(fmt.Sprintf("v%d", g.uniq))
}

// source: a merge value - an alias to a mapping, a small literal mapping, a sequence of
// sources (nested up to two levels, anywhere in the sequence), or an alias to an anchored
// sequence of sources.
func (g *gen) source(depth int) *yaml.Node {
	switch c := g.r.Intn(10); {
	case c < 3 && depth > 0, depth == 2:
		s := &yaml.Node{Kind: yaml.SequenceNode, Tag: "!!seq"}
		for j := 1 + g.r.Intn(3); j > 0; j-- {
			s.Content = append(s.Content, g.source(depth-1))
		}
		s.Anchor = anchorNames[g.r.Intn(len(anchorNames))]
		g.srcSeqs = append(g.srcSeqs, s)
		return s
	case c < 5 && len(g.srcSeqs) > 0:
		return alias(g.srcSeqs[g.r.Intn(len(g.srcSeqs))])
	case c < 6:
		m := &yaml.Node{Kind: yaml.MappingNode, Tag: "!!map"}
		a, b := g.r.Intn(5), g.r.Intn(5)
		g.uniq++
		m.Content = append(m.Content, scalar(fmt.Sprintf("k%d", a)), scalar(fmt.Sprintf("v%d", g.uniq)))
		if b != a {
			g.uniq++
			m.Content = append(m.Content, scalar(fmt.Sprintf("k%d", b)), scalar(fmt.Sprintf("v%d", g.uniq)))
		}
		return m
	}
	return alias(g.maps[g.r.Intn(len(g.maps))])
}

func (g *gen) mapping(depth int) *yaml.Node {
	m := &yaml.Node{Kind: yaml.MappingNode, Tag: "!!map"}
	used := map[string]bool{}
	n := 1 + g.r.Intn(4)
	for i := 0; i < n; i++ {
		if len(g.maps) > 0 && g.r.Intn(3) == 0 {
			// a merge: one source or a sequence of sources, anywhere among the keys
			var src *yaml.Node
			if g.r.Intn(2) == 0 {
				src = alias(g.maps[g.r.Intn(len(g.maps))])
			} else {
				src = g.source(2)
			}
			m.Content = append(m.Content, mergeKey(), src)
			continue
		}
		k := g.key()
		ks, _ := keyOf(k)
		if used[ks] {
			continue
		}
		used[ks] = true
		m.Content = append(m.Content, k, g.value(depth))
	}
	m.Anchor = anchorNames[g.r.Intn(len(anchorNames))]
	g.maps = append(g.maps, m)
	g.nodes = append(g.nodes, m)
	return m
}

func decodeTimed(t *testing.T, n *yaml.Node) (any, error, bool) {
	type res struct {
		v   any
		err error
	}
	ch := make(chan res, 1)
	go func() {
		v, err := ordered.DecodeYAML(n)
		ch <- res{v, err}
	}()
	select {
	case r := <-ch:
		return r.v, r.err, true
	case <-time.After(20 * time.Second):
		return nil, nil, false
	}
}

func TestC07(t *testing.T) {
	cases, failures := 0, 0
	fail := func(f string, a ...any) { failures++; t.Errorf(f, a...) }
	n := 1500
	if os.Getenv("VERIF_TIER") == "thorough" {
		n = 40000
	}
	r := rand.New(rand.NewSource(seed()))
	for i := 0; i < n; i++ {
		g := &gen{r: r}
		root := g.mapping(3)
		mode := i % 6
		var back string
		if mode > 0 && len(g.maps) > 0 {
			// add a back-edge from a random mapping to itself or an enclosing / other mapping
			from := g.maps[r.Intn(len(g.maps))]
			to := g.maps[r.Intn(len(g.maps))]
			switch mode {
			case 1:
				back = "value"
				from.Content = append(from.Content, scalar("back"), alias(to))
			case 2:
				back = "sequence"
				from.Content = append(from.Content, scalar("back"), &yaml.Node{Kind: yaml.SequenceNode, Tag: "!!seq", Content: []*yaml.Node{scalar("x"), alias(to)}})
			case 3:
				back = "merge"
				from.Content = append(from.Content, mergeKey(), alias(to))
			case 4:
				back = "key"
				from.Content = append(from.Content, alias(to), scalar("v"))
			case 5:
				// a cycle through merge sequences and aliases only: <<: &s [.., *s, ..] (possibly nested)
				back = "merge-sequence"
				sq := &yaml.Node{Kind: yaml.SequenceNode, Tag: "!!seq"}
				inner := sq
				if r.Intn(2) == 0 {
					inner = &yaml.Node{Kind: yaml.SequenceNode, Tag: "!!seq"}
					sq.Content = append(sq.Content, inner)
				}
				inner.Content = append(inner.Content, alias(sq))
				if r.Intn(2) == 0 {
					inner.Content = append(inner.Content, alias(to))
				}
				if len(g.srcSeqs) > 0 && r.Intn(2) == 0 {
					other := g.srcSeqs[r.Intn(len(g.srcSeqs))]
					other.Content = append(other.Content, alias(sq))
					sq.Content = append(sq.Content, alias(other))
				}
				from.Content = append(from.Content, mergeKey(), sq)
			}
		}
		doc := &yaml.Node{Kind: yaml.DocumentNode, Content: []*yaml.Node{root}}
		budget := 200000
		want, werr := refValue(root, map[*yaml.Node]bool{}, &budget)
		if werr != nil && strings.Contains(werr.Error(), "budget") {
			continue // expansion too large for a bounded check
		}
		got, gerr, done := decodeTimed(t, doc)
		cases++
		if !done {
			fail("case %d (%s back-edge): DecodeYAML did not return within the time bound", i, back)
			continue
		}
		if werr != nil {
			if gerr == nil {
				fail("case %d (%s back-edge): reference rejects (%v) but DecodeYAML accepted", i, back, werr)
			}
			continue
		}
		if gerr != nil {
			fail("case %d (%s back-edge): DecodeYAML failed: %v", i, back, gerr)
			continue
		}
		if plain := ordered.ToMapRecursive(got); !reflect.DeepEqual(plain, want) {
			fail("case %d (%s back-edge): content differs from the merge rules\n got: %v\nwant: %v", i, back, plain, want)
			if failures > 10 {
				break
			}
		}
		// independent copies: two decodes share no container
		if m1, ok := got.(*ordered.Map[string, any]); ok {
			again, _, _ := decodeTimed(t, doc)
			if m2, ok := again.(*ordered.Map[string, any]); ok && m1 == m2 {
				fail("case %d: two decodes returned the same map object", i)
			}
			if shared(m1, map[any]bool{}) {
				fail("case %d: one decoded tree contains the same container twice (alias expansion is not an independent copy)", i)
			}
		}
	}
	// parsed documents (yaml.v3's own tagging of <<, anchors and aliases)
	for _, d := range docs {
		var node yaml.Node
		if err := yaml.Unmarshal([]byte(d.src), &node); err != nil {
			t.Fatalf("yaml: %v\n%s", err, d.src)
		}
		got, err, done := decodeTimed(t, &node)
		cases++
		switch {
		case !done:
			fail("document %q: no result within the time bound", d.name)
		case d.wantErr && err == nil:
			fail("document %q: accepted, want an error", d.name)
		case !d.wantErr && err != nil:
			fail("document %q: %v", d.name, err)
		case !d.wantErr:
			budget := 100000
			want, werr := refValue(node.Content[0], map[*yaml.Node]bool{}, &budget)
			if werr != nil {
				t.Fatalf("reference failed on %q: %v", d.name, werr)
			}
			if plain := ordered.ToMapRecursive(got); !reflect.DeepEqual(plain, want) {
				fail("document %q: got %v want %v", d.name, plain, want)
			}
			if d.check != nil {
				if msg := d.check(ordered.ToMapRecursive(got)); msg != "" {
					fail("document %q: %s", d.name, msg)
				}
			}
		}
	}
	fmt.Printf("BOUNDED name=c07-graphs cases=%d failures=%d\n", cases, failures)
}

// shared reports whether a container (*Map or []any with elements) occurs twice in one tree.
func shared(v any, seen map[any]bool) bool {
	switch x := v.(type) {
	case *ordered.Map[string, any]:
		if seen[x] {
			return true
		}
		seen[x] = true
		dup := false
		x.Range(func(k string, e any) error {
			if shared(e, seen) {
				dup = true
			}
			return nil
		})
		return dup
	case []any:
		for _, e := range x {
			if shared(e, seen) {
				return true
			}
		}
	}
	return false
}

type docCase struct {
	name    string
	src     string
	wantErr bool
	check   func(any) string
}

func at(v any, path ...string) any {
	for _, p := range path {
		m, ok := v.(map[string]any)
		if !ok {
			return nil
		}
		v = m[p]
	}
	return v
}

var docs = []docCase{
	{name: "explicit key after the merge still wins", src: "base: &b {a: 1, b: 2}\nx:\n  <<: *b\n  a: 9\n",
		check: func(v any) string {
			if at(v, "x", "a") != 9 || at(v, "x", "b") != 2 {
				return fmt.Sprint("x = ", at(v, "x"))
			}
			return ""
		}},
	{name: "earlier source beats later source", src: "p: &p {a: 1}\nq: &q {a: 2, b: 3}\nx:\n  <<: [*p, *q]\n",
		check: func(v any) string {
			if at(v, "x", "a") != 1 || at(v, "x", "b") != 3 {
				return fmt.Sprint("x = ", at(v, "x"))
			}
			return ""
		}},
	{name: "merge through merge", src: "p: &p {a: 1}\nq: &q\n  <<: *p\n  b: 2\nx:\n  <<: *q\n  c: 3\n",
		check: func(v any) string {
			if at(v, "x", "a") != 1 || at(v, "x", "b") != 2 || at(v, "x", "c") != 3 {
				return fmt.Sprint("x = ", at(v, "x"))
			}
			return ""
		}},
	{name: "same anchor on two sibling branches", src: "a: &a {k: v}\nd:\n  da: *a\n  db: *a\n",
		check: func(v any) string {
			if at(v, "d", "da", "k") != "v" || at(v, "d", "db", "k") != "v" {
				return fmt.Sprint("d = ", at(v, "d"))
			}
			return ""
		}},
	{name: "alias as key", src: "k: &k name\nm:\n  *k : value\n",
		check: func(v any) string {
			if at(v, "m", "name") != "value" {
				return fmt.Sprint("m = ", at(v, "m"))
			}
			return ""
		}},
	{name: "nested merge sequence keeps depth-first order", src: "a: &a {k: from-a}\nc: &c {k: from-c, j: 1}\ne:\n  <<: [[*a], *c]\n",
		check: func(v any) string {
			if at(v, "e", "k") != "from-a" || at(v, "e", "j") != 1 {
				return fmt.Sprint("e = ", at(v, "e"))
			}
			return ""
		}},
	{name: "anchored sequence of sources before a sibling", src: "a: &a {k: from-a}\nc: &c {k: from-c}\nd: &d [*a]\ne:\n  <<: [*d, *c]\n",
		check: func(v any) string {
			if at(v, "e", "k") != "from-a" {
				return fmt.Sprint("e = ", at(v, "e"))
			}
			return ""
		}},
	{name: "self-referential merge sequence is tolerated", src: "a:\n  k: v\n  <<: &s [*s]\n",
		check: func(v any) string {
			if at(v, "a", "k") != "v" {
				return fmt.Sprint("a = ", at(v, "a"))
			}
			return ""
		}},
	{name: "nested self-referential merge sequence is tolerated", src: "a:\n  k: v\n  <<: &s [[*s]]\n"},
	{name: "a redefined anchor name: each alias is bound to the latest definition before it", src: "first: &base {a: 1}\nmid: &mid {<<: *base, m: 2}\nsecond: &base {b: 3}\ntop: {<<: [*base, *mid], t: 4}\n",
		check: func(v any) string {
			if at(v, "top", "a") != 1 || at(v, "top", "b") != 3 || at(v, "top", "m") != 2 || at(v, "top", "t") != 4 {
				return fmt.Sprint("top = ", at(v, "top"))
			}
			return ""
		}},
	{name: "two collections under one anchor name are two collections", src: "x: &s [1, 2]\ny: &s [3]\nz: &m {k: 1}\nw: &m {j: 2}\n",
		check: func(v any) string {
			if fmt.Sprint(at(v, "y")) != "[3]" || at(v, "w", "j") != 2 || at(v, "w", "k") != nil {
				return fmt.Sprint("y = ", at(v, "y"), " w = ", at(v, "w"))
			}
			return ""
		}},
	{name: "self-referential value", src: "a: &a\n  b: *a\n", wantErr: true},
	{name: "nested cycle through a sequence", src: "a: &a\n  x: &b\n    l: [c, *a]\n    m: *b\n", wantErr: true},
	{name: "self merge is tolerated", src: "a: &a\n  <<: *a\n  k: v\n",
		check: func(v any) string {
			if at(v, "a", "k") != "v" {
				return fmt.Sprint("a = ", at(v, "a"))
			}
			return ""
		}},
}
