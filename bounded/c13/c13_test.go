package c13

// Bounded stand-in for C13 (not proof): totality of Parse and completeness of
// its result.
//   - corpus: every raw string literal of /repo's parser tests (real pipelines)
//     plus hand-written shapes; mutated at byte level (flip, insert, delete,
//     duplicate, splice) for a fixed number of rounds (TestC13), and under Go's
//     coverage-guided fuzzer in the thorough tier (FuzzParse);
//   - grammar: generated pipeline documents with a wrong-typed value injected
//     at every position of the tree.
// Oracle: no panic; returns within a time bound; on a usable result (nil error
// or warning) the step list is non-nil and holds one non-nil step per entry of
// the input sequence, of the kind the entry calls for or an unknown step
// holding the entry verbatim, recursively inside groups; a fallback implies a
// warning; JSON and YAML marshalling succeed.

import (
	"bytes"
	"encoding/json"
	"fmt"
	"go/ast"
	"go/parser"
	"go/token"
	"math/rand"
	"os"
	"reflect"
	"strconv"
	"strings"
	"testing"
	"time"

	pipeline "github.com/buildkite/go-pipeline"
	"github.com/buildkite/go-pipeline/ordered"
	"github.com/buildkite/go-pipeline/warning"
	"gopkg.in/yaml.v3"
)

func seed() int64 {
	var s int64 = 1
	fmt.Sscan(os.Getenv("VERIF_SEED"), &s)
	return s
}

func repoDir() string {
	if d := os.Getenv("VERIF_REPO"); d != "" {
		return d
	}
	return "/repo"
}

// corpus: raw string literals of the repository's own parser tests.
func corpus(t testing.TB) [][]byte {
	var out [][]byte
	for _, f := range []string{"parser_test.go", "parser_matrix_test.go", "plugins_test.go", "step_command_test.go"} {
		fset := token.NewFileSet()
		af, err := parser.ParseFile(fset, repoDir()+"/"+f, nil, 0)
		if err != nil {
			continue
		}
		ast.Inspect(af, func(n ast.Node) bool {
			if bl, ok := n.(*ast.BasicLit); ok && bl.Kind == token.STRING && strings.HasPrefix(bl.Value, "`") {
				s, err := strconv.Unquote(bl.Value)
				if err == nil && strings.Contains(s, ":") && len(s) < 4000 {
					out = append(out, []byte(s))
				}
			}
			return true
		})
	}
	for _, s := range extra {
		out = append(out, []byte(s))
	}
	if len(out) < 20 {
		t.Fatalf("corpus too small (%d): cannot read the repository's parser tests", len(out))
	}
	return out
}

var extra = []string{
	"steps:\n  - command: x\n    timeout_in_minutes: .inf\nnotify: [.nan, -.inf]\n",
	"steps:\n  - command: a\n  - wait\n  - block: b\n  - trigger: t\n  - group: g\n    steps:\n      - command: x\n      - mystery: 1\n  - unknown: y\n",
	"- command: legacy\n- wait\n",
	"steps: null\n",
	"steps: []\nenv: {A: b}\n",
	"steps:\n  - type: script\n    command: z\n  - type: 7\n",
	// a type that is not a scalar (unhashable once decoded: seed C13k indexed a table keyed by any with it), top level and in a group
	"steps:\n  - type: [command]\n    command: echo hi\n  - type: {wait: x}\n  - group: g\n    steps:\n      - type: [[wait]]\n        wait: ~\n      - type: []\n  - type: true\n",
	"steps:\n  - group: ~\n    steps: ~\n  - group: g2\n    steps:\n      - group: inner\n        steps: [wait, {command: c}]\n",
	"a: &a {command: shared}\nsteps:\n  - *a\n  - <<: *a\n    label: l\n",
	// a multi-line string beginning with a tab in a generic position (listed finding: YAML marshalling fails)
	"0:\n 0: \"\\t\\n\\n\"\n",
	"steps:\n  - command: x\n    note: {deep: \"\\tindented\\nsecond line\"}\n",
	// YAML timestamps in generic positions (the zone hour 24 is the listed finding)
	"steps:\n  - command: x\n    when: 2001-01-01T00:00:00+24:00\n    since: 2002-08-15\n",
	// anchor names redefined: the second collection is not the first
	"steps:\n  - group: one\n    steps: &inner\n      - command: make\n  - group: two\n    steps: &inner\n      - command: make test\n      - wait\n      - command: make lint\n",
	"steps:\n  - &s {command: a}\n  - &s {command: b, label: l}\n  - *s\n",
	// the only fallback sits inside a group (one and two levels down): it must still surface as a warning
	"steps:\n  - group: g\n    steps:\n      - mystery: 1\n",
	"steps:\n  - command: ok\n  - group: g\n    steps:\n      - command: fine\n      - group: inner\n        steps:\n          - type: nope\n  - wait\n",
	"- group: g\n  steps:\n    - shrug\n",
	// anchor / alias / merge cycles: rejected or tolerated, never a hang or a crash
	"steps:\n  - command: echo hello\n    <<: &loop [*loop]\n",
	"steps:\n  - command: c\n    <<: &s [[*s], {label: l}]\n",
	"base: &b\n  <<: *b\n  label: l\nsteps:\n  - command: c\n    <<: *b\n",
	"x: &x [*y]\ny: &y [*x]\nsteps:\n  - command: c\n    <<: *x\n",
	"steps:\n  - &st\n    command: c\n    env: {A: b}\n    <<: [*st, [*st]]\n",
	"a: &a\n  b: *a\nsteps: [{command: c}]\n",
	"steps: &s\n  - command: c\n  - group: g\n    steps: *s\n",
	"env: &e {A: b, <<: [*e]}\nsteps:\n  - command: c\n    env: *e\n",
	"steps:\n  - command: c\n    plugins:\n      - docker#v1: &cfg {image: x, <<: &q [*q, *cfg]}\n",
	"steps:\n  - command: c\n    matrix: [a, b]\n    plugins:\n      - docker#v1: {image: x}\n      - cache\n    cache: p\n    env: {K: v}\n    signature: {algorithm: a, value: v, signed_fields: [command]}\n",
}

// ---- known findings (read-only) ----

var (
	knownHits  int
	knownWhat  string
	knownHits2 int
	knownWhat2 string
	knownHits3 int
	knownWhat3 string
)

func nonFinite(err error) bool {
	m := err.Error()
	return strings.Contains(m, "unsupported value: +Inf") || strings.Contains(m, "unsupported value: -Inf") || strings.Contains(m, "unsupported value: NaN")
}

func knownOpen(prop, witness string) (string, bool) {
	dir := os.Getenv("VERIF_DIR")
	if dir == "" {
		dir = "/verif"
	}
	data, err := os.ReadFile(dir + "/known_findings.txt")
	if err != nil {
		return "", false
	}
	for _, line := range strings.Split(string(data), "\n") {
		line = strings.TrimSpace(line)
		if strings.HasPrefix(line, "open:") && strings.Contains(line, "property="+prop+" ") && strings.Contains(line, "witness="+witness+" ") {
			if i := strings.Index(line, "::"); i >= 0 {
				return strings.TrimSpace(line[i+2:]), true
			}
			return line, true
		}
	}
	return "", false
}

// ---- oracle ----

type outcome struct {
	p    *pipeline.Pipeline
	err  error
	pan  any
	done bool
}

func parseTimed(data []byte) outcome {
	ch := make(chan outcome, 1)
	go func() {
		var o outcome
		defer func() {
			if r := recover(); r != nil {
				o.pan = r
			}
			o.done = true
			ch <- o
		}()
		o.p, o.err = pipeline.Parse(bytes.NewReader(data))
	}()
	select {
	case o := <-ch:
		return o
	case <-time.After(30 * time.Second):
		return outcome{}
	}
}

// expansion estimates the size of the document after alias expansion (capped). A node
// reached again on the current path (an anchor/alias cycle) is not descended into a second
// time: cyclic documents are in scope - Parse must reject or tolerate them in bounded time.
func expansion(n *yaml.Node, budget *int, path map[*yaml.Node]bool) {
	if n == nil || *budget < 0 {
		return
	}
	if path[n] {
		return
	}
	path[n] = true
	defer delete(path, n)
	*budget--
	if n.Kind == yaml.AliasNode {
		expansion(n.Alias, budget, path)
		return
	}
	for _, c := range n.Content {
		expansion(c, budget, path)
		if *budget < 0 {
			return
		}
	}
}

func kindOf(entry any) string {
	switch e := entry.(type) {
	case string:
		switch e {
		case "wait", "waiter":
			return "*pipeline.WaitStep"
		case "block", "input", "manual":
			return "*pipeline.InputStep"
		}
		return "*pipeline.UnknownStep"
	case *ordered.Map[string, any]:
		if ty, ok := e.Get("type"); ok {
			s, _ := ty.(string)
			switch s {
			case "command", "script":
				return "*pipeline.CommandStep"
			case "wait", "waiter":
				return "*pipeline.WaitStep"
			case "block", "input", "manual":
				return "*pipeline.InputStep"
			case "trigger":
				return "*pipeline.TriggerStep"
			case "group":
				return "*pipeline.GroupStep"
			}
			return "*pipeline.UnknownStep"
		}
		switch {
		case e.Contains("command") || e.Contains("commands") || e.Contains("plugins"):
			return "*pipeline.CommandStep"
		case e.Contains("wait") || e.Contains("waiter"):
			return "*pipeline.WaitStep"
		case e.Contains("block") || e.Contains("input") || e.Contains("manual"):
			return "*pipeline.InputStep"
		case e.Contains("trigger"):
			return "*pipeline.TriggerStep"
		case e.Contains("group"):
			return "*pipeline.GroupStep"
		}
	}
	return "*pipeline.UnknownStep"
}

// checkSteps compares a parsed step list with the entries of the input sequence.
func checkSteps(where string, steps pipeline.Steps, entries []any, fallbacks *int) string {
	if steps == nil {
		return where + ": step list is nil"
	}
	if len(steps) != len(entries) {
		return fmt.Sprintf("%s: %d steps for %d entries", where, len(steps), len(entries))
	}
	for i, st := range steps {
		if st == nil || reflect.ValueOf(st).IsNil() {
			return fmt.Sprintf("%s[%d]: nil step", where, i)
		}
		got := fmt.Sprintf("%T", st)
		want := kindOf(entries[i])
		if got == "*pipeline.UnknownStep" {
			*fallbacks++
			u := st.(*pipeline.UnknownStep)
			// (compared through fmt, which sorts map keys: reflect.DeepEqual would reject NaN == NaN)
			if fmt.Sprintf("%#v", ordered.ToMapRecursive(u.Contents)) != fmt.Sprintf("%#v", ordered.ToMapRecursive(entries[i])) {
				return fmt.Sprintf("%s[%d]: unknown step does not hold the entry verbatim: %v vs %v", where, i, u.Contents, entries[i])
			}
			continue
		}
		if got != want {
			return fmt.Sprintf("%s[%d]: entry calls for %s (or an unknown step), got %s", where, i, want, got)
		}
		if g, ok := st.(*pipeline.GroupStep); ok {
			m := entries[i].(*ordered.Map[string, any])
			sub, _ := m.Get("steps")
			subEntries, _ := sub.([]any)
			if msg := checkSteps(fmt.Sprintf("%s[%d].steps", where, i), g.Steps, subEntries, fallbacks); msg != "" {
				return msg
			}
		}
	}
	return ""
}

// check runs the whole oracle on one input; it returns "" or a failure message, and whether the input was in scope.
func check(data []byte) (msg string, inScope bool) {
	var node yaml.Node
	if err := yaml.Unmarshal(data, &node); err == nil {
		budget := 50000
		expansion(&node, &budget, map[*yaml.Node]bool{})
		if budget < 0 {
			return "", false // alias expansion beyond the stated bound
		}
	}
	o := parseTimed(data)
	if !o.done {
		return "Parse did not return within the time bound", true
	}
	if o.pan != nil {
		return fmt.Sprintf("Parse panicked: %v", o.pan), true
	}
	if o.err != nil && !warning.Is(o.err) {
		return "", true // hard failure: nothing more is promised
	}
	if o.p == nil {
		return "usable result without a pipeline", true
	}
	// the input step sequence, decoded independently of the pipeline types
	generic, err := ordered.DecodeYAML(&node)
	if err != nil {
		return "Parse usable but DecodeYAML of the same document fails: " + err.Error(), true
	}
	var entries []any
	switch g := generic.(type) {
	case []any:
		entries = g
	case *ordered.Map[string, any]:
		if s, ok := g.Get("steps"); ok {
			entries, _ = s.([]any)
		}
	}
	fallbacks := 0
	if msg := checkSteps("steps", o.p.Steps, entries, &fallbacks); msg != "" {
		return msg, true
	}
	if fallbacks > 0 && o.err == nil {
		return fmt.Sprintf("%d step(s) fell back to unknown steps but no warning was returned", fallbacks), true
	}
	// the same count against yaml.v3's own decoder (which expands aliases and merges by itself):
	// the library's generic decoder is part of what is being checked
	var ref any
	if yaml.Unmarshal(data, &ref) == nil {
		var refSteps any
		switch g := ref.(type) {
		case []any:
			refSteps = g
		case map[string]any:
			refSteps = g["steps"]
		case map[any]any: // yaml.v3's shape for a mapping with a non-string key
			refSteps = g["steps"]
		}
		if msg := sameShape("steps", o.p.Steps, refSteps); msg != "" {
			return msg, true
		}
	}
	if _, err := json.Marshal(o.p); err != nil {
		if nonFinite(err) {
			if what, ok := knownOpen("C13", "non-finite-float"); ok {
				knownHits++
				knownWhat = what
				return "", true
			}
		}
		// a YAML timestamp kept as a time.Time whose zone hour is 24 (listed finding)
		if strings.Contains(err.Error(), "Time.MarshalJSON") {
			if what, ok := knownOpen("C13", "yaml-timestamp"); ok {
				knownHits3++
				knownWhat3 = what
				return "", true
			}
		}
		return "json.Marshal of the parsed pipeline fails: " + err.Error(), true
	}
	if err := func() (err error) {
		defer func() {
			if r := recover(); r != nil {
				err = fmt.Errorf("panic: %v", r)
			}
		}()
		_, err = yaml.Marshal(o.p)
		return
	}(); err != nil {
		// yaml.v3 cannot write a multi-line string that begins with a space or a tab inside a node it
		// re-reads (Node.Encode, used by the ordered map's MarshalYAML): a listed finding
		if leadingWhitespaceMultiline(generic) {
			if what, ok := knownOpen("C13", "yaml-multiline-leading-whitespace"); ok {
				knownHits2++
				knownWhat2 = what
				return "", true
			}
		}
		return "yaml.Marshal of the parsed pipeline fails: " + err.Error(), true
	}
	return "", true
}

// leadingWhitespaceMultiline: some string (key or value) of a decoded document spans several lines
// and begins with a space or a tab.
func leadingWhitespaceMultiline(v any) bool {
	bad := func(s string) bool {
		return strings.Contains(s, "\n") && (strings.HasPrefix(s, " ") || strings.HasPrefix(s, "\t") || strings.HasPrefix(s, "\n") || strings.HasPrefix(s, "\r"))
	}
	switch x := v.(type) {
	case string:
		return bad(x)
	case []any:
		for _, e := range x {
			if leadingWhitespaceMultiline(e) {
				return true
			}
		}
	case *ordered.Map[string, any]:
		found := false
		x.Range(func(k string, e any) error {
			if bad(k) || leadingWhitespaceMultiline(e) {
				found = true
			}
			return nil
		})
		return found
	}
	return false
}

func mutate(r *rand.Rand, in []byte, other []byte) []byte {
	b := append([]byte(nil), in...)
	for k := 1 + r.Intn(3); k > 0; k-- {
		if len(b) == 0 {
			b = append(b, byte(r.Intn(256)))
			continue
		}
		i := r.Intn(len(b))
		switch r.Intn(7) {
		case 0:
			b[i] ^= 1 << uint(r.Intn(8))
		case 1:
			b = append(b[:i], b[i+1:]...)
		case 2:
			tokens := []string{":", "- ", "\n", "  ", "&a ", "*a", "<<: ", "[", "]", "{", "}", "null", "~", "steps:", "group:", "wait", "type: ", "command: ", "!!binary ", "|", ">", "\t", "'", "\"", "#", "? ", "0x1F", "1e3", ".inf", "yes"}
			tk := tokens[r.Intn(len(tokens))]
			b = append(b[:i], append([]byte(tk), b[i:]...)...)
		case 3:
			j := i + r.Intn(len(b)-i)
			b = append(b[:j], append(append([]byte(nil), b[i:j]...), b[j:]...)...)
		case 4:
			if len(other) > 0 {
				j := r.Intn(len(other))
				b = append(b[:i], other[j:]...)
			}
		case 5:
			// re-indent a line
			if nl := bytes.IndexByte(b[i:], '\n'); nl >= 0 {
				p := i + nl + 1
				b = append(b[:p], append([]byte(strings.Repeat(" ", r.Intn(6))), b[p:]...)...)
			}
		case 6:
			b[i] = byte(r.Intn(256))
		}
	}
	return b
}

// ---- grammar-generated documents with injected type errors ----

func genDoc(r *rand.Rand) map[string]any {
	step := func(depth int) any { return nil }
	var mk func(depth int) any
	mk = func(depth int) any {
		switch r.Intn(8) {
		case 0:
			return "wait"
		case 1:
			return map[string]any{"block": "b", "prompt": "p", "fields": []any{map[string]any{"text": "t", "key": "k"}}}
		case 2:
			return map[string]any{"trigger": "other", "build": map[string]any{"message": "m", "env": map[string]any{"A": "b"}}}
		case 3:
			if depth > 0 {
				return map[string]any{"group": "g", "key": "gk", "steps": []any{mk(depth - 1), mk(depth - 1)}}
			}
			return map[string]any{"wait": nil, "continue_on_failure": true}
		case 4:
			return map[string]any{"mystery": "m"}
		default:
			return map[string]any{"command": "make", "label": "l", "key": "k", "env": map[string]any{"E": "v"},
				"plugins":     []any{map[string]any{"docker#v1": map[string]any{"image": "i"}}, "cache"},
				"matrix":      map[string]any{"setup": map[string]any{"os": []any{"linux", "mac"}}, "adjustments": []any{map[string]any{"with": map[string]any{"os": "win"}, "skip": true}}},
				"cache":       map[string]any{"paths": []any{"a", "b"}},
				"retry":       map[string]any{"automatic": true},
				"depends_on":  []any{"x"},
				"soft_fail":   []any{map[string]any{"exit_status": 1}},
				"concurrency": 2}
		}
	}
	_ = step
	steps := []any{}
	for i := 2 + r.Intn(3); i > 0; i-- {
		steps = append(steps, mk(2))
	}
	return map[string]any{"env": map[string]any{"A": "1", "B": "$A"}, "agents": map[string]any{"queue": "q"}, "notify": []any{map[string]any{"slack": "#c"}}, "steps": steps}
}

// positions enumerates every node of a generic tree as a setter.
func positions(v any, set func(any), out *[]func(any)) {
	*out = append(*out, set)
	switch x := v.(type) {
	case map[string]any:
		for k := range x {
			k := k
			positions(x[k], func(nv any) { x[k] = nv }, out)
		}
	case []any:
		for i := range x {
			i := i
			positions(x[i], func(nv any) { x[i] = nv }, out)
		}
	}
}

var wrong = []any{nil, "str", 7, 2.5, true, []any{}, []any{"x", 1}, map[string]any{}, map[string]any{"k": []any{1}}, []any{map[string]any{"a": nil}}}

func deepCopy(v any) any {
	b, _ := json.Marshal(v)
	var out any
	json.Unmarshal(b, &out)
	return out
}

func TestC13(t *testing.T) {
	cases, failures, skipped := 0, 0, 0
	fail := func(input []byte, msg string) {
		failures++
		if failures <= 15 {
			t.Errorf("%s\n--- input ---\n%s\n-------------", msg, input)
		}
	}
	corp := corpus(t)
	run := func(data []byte) {
		msg, in := check(data)
		if !in {
			skipped++
			return
		}
		cases++
		if msg != "" {
			fail(data, msg)
		}
	}
	for _, c := range corp {
		run(c)
	}
	r := rand.New(rand.NewSource(seed()))
	rounds := 6000
	if os.Getenv("VERIF_TIER") == "thorough" {
		rounds = 300000
	}
	pool := append([][]byte(nil), corp...)
	for i := 0; i < rounds && failures < 15; i++ {
		base := pool[r.Intn(len(pool))]
		m := mutate(r, base, pool[r.Intn(len(pool))])
		if len(m) > 6000 {
			continue
		}
		run(m)
		if i%50 == 0 && len(pool) < 2000 {
			pool = append(pool, m)
		}
	}
	// grammar documents with a wrong-typed value at every position
	docs := 6
	if os.Getenv("VERIF_TIER") == "thorough" {
		docs = 60
	}
	for d := 0; d < docs && failures < 15; d++ {
		base := genDoc(r)
		var setters []func(any)
		positions(deepCopy(base), func(any) {}, &setters)
		for pi := range setters {
			for _, w := range wrong {
				doc := deepCopy(base).(map[string]any)
				var ss []func(any)
				root := any(doc)
				positions(doc, func(nv any) { root = nv }, &ss)
				if pi >= len(ss) {
					continue
				}
				ss[pi](w)
				text, err := yaml.Marshal(root)
				if err != nil {
					continue
				}
				run(text)
			}
		}
	}
	if knownHits3 > 0 {
		fmt.Printf("KNOWN-FINDING: property=C13 %s (%d inputs)\n", knownWhat3, knownHits3)
	}
	if knownHits2 > 0 {
		fmt.Printf("KNOWN-FINDING: property=C13 %s (%d inputs)\n", knownWhat2, knownHits2)
	}
	if knownHits > 0 {
		fmt.Printf("KNOWN-FINDING: property=C13 %s (%d inputs)\n", knownWhat, knownHits)
	}
	fmt.Printf("BOUNDED name=c13-parse cases=%d failures=%d skipped_out_of_scope=%d corpus=%d\n", cases, failures, skipped, len(corp))
}

// FuzzParse: the same oracle under Go's coverage-guided fuzzer (thorough tier:
// bounded/run.sh c13 -run XXX -fuzz FuzzParse -fuzztime <t>).
func FuzzParse(f *testing.F) {
	for _, c := range corpus(f) {
		f.Add(c)
	}
	f.Fuzz(func(t *testing.T, data []byte) {
		if len(data) > 8000 {
			return
		}
		if msg, in := check(data); in && msg != "" {
			t.Fatalf("%s\n--- input ---\n%s", msg, data)
		}
	})
}

// sameShape: the parsed step list has as many steps as yaml.v3 sees entries, recursively inside groups.
func sameShape(where string, steps pipeline.Steps, ref any) string {
	list, _ := ref.([]any)
	if len(steps) != len(list) {
		return fmt.Sprintf("%s: %d steps, but the YAML library's own decoder sees %d entries", where, len(steps), len(list))
	}
	for i, st := range steps {
		if g, ok := st.(*pipeline.GroupStep); ok {
			var sub any
			switch m := list[i].(type) {
			case map[string]any:
				sub = m["steps"]
			case map[any]any:
				sub = m["steps"]
			default:
				continue
			}
			if msg := sameShape(fmt.Sprintf("%s[%d].steps", where, i), g.Steps, sub); msg != "" {
				return msg
			}
		}
	}
	return ""
}
