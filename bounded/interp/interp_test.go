package interp

// Bounded stand-ins for the whole-tree parts of C04, C10 and C12 (not proof).

import (
	"encoding/json"
	"fmt"
	"math/rand"
	"os"
	"reflect"
	"sort"
	"strings"
	"testing"
	"unicode"

	pipeline "github.com/buildkite/go-pipeline"
	"github.com/buildkite/interpolate"
)

type mapEnv struct {
	m    map[string]string
	fold bool
}

func (e *mapEnv) norm(k string) string {
	if e.fold {
		return strings.ToUpper(k)
	}
	return k
}
func (e *mapEnv) Get(k string) (string, bool) { v, ok := e.m[e.norm(k)]; return v, ok }
func (e *mapEnv) Set(k, v string)             { e.m[e.norm(k)] = v }

func seed() int64 {
	var s int64 = 1
	fmt.Sscan(os.Getenv("VERIF_SEED"), &s)
	return s
}

var fragments = []string{"plain", "$X", "${X}", "$$X", `\$X`, "pre-$Y-post", "${Z:-dflt}", "$$$$X", "a $$X b $X", "${X}$$Y",
	// backslashes before a reference: an escaped backslash does not escape the dollar (`\\$X` is `\` + value)
	`\\$X`, `\\\$X`, `dir \\${X}\logs`, `\\\\$Y`, `a\b$X`, `$X\\$Y`, `\`, `tail\\`}

// fragCalls counts the string positions a generated pipeline has; when failAt is
// that ordinal the fragment is an expansion that fails (a required variable that is unset).
var fragCalls, failAt = 0, -1

func frag(r *rand.Rand) string {
	f := fragments[r.Intn(len(fragments))]
	fragCalls++
	if fragCalls-1 == failAt {
		return "pre ${REQUIRED_BUT_UNSET?boom} post"
	}
	return f
}

// yamlStr quotes a string for YAML.
func yamlStr(s string) string { b, _ := json.Marshal(s); return string(b) }

func genMap(r *rand.Rand, n, depth int, indent string, uniq *int) string {
	var sb strings.Builder
	for i := 0; i < n; i++ {
		*uniq++
		key := fmt.Sprintf("k%d-%s", *uniq, frag(r))
		switch {
		case depth > 0 && i%3 == 0:
			fmt.Fprintf(&sb, "%s%s:\n%s", indent, yamlStr(key), genMap(r, 1+r.Intn(3), depth-1, indent+"  ", uniq))
		case i%3 == 1:
			fmt.Fprintf(&sb, "%s%s: [%s, 7, true, %s]\n", indent, yamlStr(key), yamlStr(frag(r)), yamlStr(frag(r)))
		default:
			fmt.Fprintf(&sb, "%s%s: %s\n", indent, yamlStr(key), yamlStr(frag(r)))
		}
	}
	return sb.String()
}

func genPipeline(r *rand.Rand, mapSize int) string {
	uniq := 0
	var sb strings.Builder
	sb.WriteString("top-" + "extra: " + yamlStr(frag(r)) + "\n")
	sb.WriteString("nested:\n" + genMap(r, mapSize, 2, "  ", &uniq))
	sb.WriteString("steps:\n")
	// command step
	sb.WriteString("  - command: " + yamlStr("run "+frag(r)) + "\n")
	sb.WriteString("    label: " + yamlStr(frag(r)) + "\n")
	sb.WriteString("    key: " + yamlStr("key-"+frag(r)) + "\n")
	sb.WriteString("    env:\n")
	for i := 0; i < mapSize; i++ {
		uniq++
		fmt.Fprintf(&sb, "      %s: %s\n", yamlStr(fmt.Sprintf("E%d_%s", uniq, frag(r))), yamlStr(frag(r)))
	}
	if mapSize == 0 {
		sb.WriteString("      {}\n")
	}
	sb.WriteString("    plugins:\n      - " + yamlStr("docker#"+frag(r)) + ":\n          image: " + yamlStr(frag(r)) + "\n" + genMap(r, 2, 1, "          ", &uniq))
	// plugins without a config: scalar form and explicit null
	sb.WriteString("      - " + yamlStr("cache#"+frag(r)) + "\n      - " + yamlStr("org/tool#"+frag(r)) + ": ~\n")
	sb.WriteString("    matrix:\n      setup:\n        os: [" + yamlStr(frag(r)) + ", linux]\n      adjustments:\n        - with: {os: " + yamlStr(frag(r)) + "}\n          soft_fail: " + yamlStr(frag(r)) + "\n          skip: " + yamlStr("reason "+frag(r)) + "\n")
	// cache settings are strings of the pipeline like any other
	sb.WriteString("    cache:\n      paths: [" + yamlStr(frag(r)) + ", vendor]\n      name: " + yamlStr(frag(r)) + "\n      size: " + yamlStr(frag(r)) + "\n      cache_extra: " + yamlStr(frag(r)) + "\n")
	sb.WriteString("    signature:\n      algorithm: " + yamlStr("alg-$X") + "\n      signed_fields: [" + yamlStr("command-$X") + "]\n      value: " + yamlStr("$X$$X") + "\n")
	sb.WriteString("    unknown_field:\n" + genMap(r, mapSize, 1, "      ", &uniq))
	// other kinds
	sb.WriteString("  - wait: " + yamlStr(frag(r)) + "\n    continue_on_failure: " + yamlStr(frag(r)) + "\n")
	sb.WriteString("  - block: " + yamlStr(frag(r)) + "\n    prompt: " + yamlStr(frag(r)) + "\n")
	sb.WriteString("  - trigger: " + yamlStr(frag(r)) + "\n    build:\n      message: " + yamlStr(frag(r)) + "\n")
	sb.WriteString("  - group: " + yamlStr(frag(r)) + "\n    key: " + yamlStr(frag(r)) + "\n    steps:\n      - command: " + yamlStr(frag(r)) + "\n      - " + yamlStr("wait") + "\n")
	sb.WriteString("  - mystery: " + yamlStr(frag(r)) + "\n    more:\n" + genMap(r, 2, 1, "      ", &uniq))
	return sb.String()
}

// expand applies the single-pass expansion to every string of a generic tree,
// keys and values, except below a "signature" key.
func expand(env interpolate.Env, v any) (any, error) {
	switch x := v.(type) {
	case string:
		return interpolate.Interpolate(env, x)
	case []any:
		out := make([]any, len(x))
		for i, e := range x {
			o, err := expand(env, e)
			if err != nil {
				return nil, err
			}
			out[i] = o
		}
		return out, nil
	case map[string]any:
		out := map[string]any{}
		for k, e := range x {
			if k == "signature" {
				out[k] = e
				continue
			}
			nk, err := interpolate.Interpolate(env, k)
			if err != nil {
				return nil, err
			}
			o, err := expand(env, e)
			if err != nil {
				return nil, err
			}
			if _, dup := out[nk]; dup {
				return nil, fmt.Errorf("generator produced colliding keys %q", nk)
			}
			out[nk] = o
		}
		return out, nil
	}
	return v, nil
}

func generic(t *testing.T, p *pipeline.Pipeline) any {
	b, err := json.Marshal(p)
	if err != nil {
		t.Fatal(err)
	}
	var v any
	if err := json.Unmarshal(b, &v); err != nil {
		t.Fatal(err)
	}
	return v
}

func TestC04(t *testing.T) {
	r := rand.New(rand.NewSource(seed()))
	cases, failures := 0, 0
	runs := 4
	if os.Getenv("VERIF_TIER") == "thorough" {
		runs = 40
	}
	special := []string{
		"steps:\n  - command: x\n    nested:\n      \"$$X\": a\n      \"$X\": b\n",
		"steps:\n  - command: x\n    nested:\n      \"$X\": b\n      \"$$X\": a\n",
		"steps:\n  - wait: ~\n    \"$$Y\": {\"$$X\": 1, \"$X\": 2}\n    \"$Y\": [\"$$X\"]\n",
		"\"$$X\": 1\n\"$X\": 2\nsteps:\n  - command: \"$$X $X\"\n    env: {\"$$X\": \"$$Y\", \"$X\": \"$Y\"}\n",
		// subtrees shared through YAML aliases: every occurrence is expanded once, not once per reference
		"shared: &s {k: \"$$X\", \"$$K\": [\"$$X\", \"$X\", {\"\\\\$X\": \"$$X\"}]}\nsteps:\n  - command: x\n    a: *s\n    b: *s\n    plugins:\n      - docker#v1: *s\n      - other#v1: *s\n  - wait: ~\n    w: *s\n",
		"steps:\n  - &st\n    command: \"$$X\"\n    label: \"$$X $X\"\n    env: {A: \"$$X\"}\n  - *st\n  - group: g\n    steps: [*st, *st]\n",
		"env: &e {A: \"$$X\", B: \"$$A\"}\nsteps:\n  - command: c\n    env: *e\n  - trigger: t\n    build: {env: *e}\n",
	}
	for _, size := range []int{-1, 0, 1, 9, 40} {
		for n := 0; n < runs; n++ {
			var doc string
			if size < 0 {
				if n >= len(special) {
					break
				}
				doc = special[n]
			} else {
				doc = genPipeline(r, size)
			}
			var first string
			for rep := 0; rep < 3; rep++ {
				p, err := pipeline.Parse(strings.NewReader(doc))
				if err != nil {
					// unknown "mystery" step gives a warning only
					if p == nil {
						t.Fatalf("parse: %v\n%s", err, doc)
					}
				}
				before := generic(t, p)
				env := &mapEnv{m: map[string]string{"X": "ex-$Y-${X}", "Y": "why$$X"}} // values that look like references: never expanded again
				want, err := expand(env, before)
				if err != nil {
					t.Fatalf("reference: %v", err)
				}
				if err := p.Interpolate(env, false); err != nil {
					t.Fatalf("interpolate: %v", err)
				}
				after := generic(t, p)
				cases++
				if !reflect.DeepEqual(after, want) {
					failures++
					a, _ := json.Marshal(after)
					w, _ := json.Marshal(want)
					if failures < 4 {
						t.Errorf("size %d: interpolated pipeline differs from the single-pass expansion\n got %s\nwant %s", size, a, w)
					}
				}
				b, _ := json.Marshal(after)
				if rep == 0 {
					first = string(b)
				} else if string(b) != first {
					failures++
					t.Errorf("size %d: two runs on the same input differ", size)
				}
			}
		}
	}
	// an expansion failure at any string position (keys, values, every step kind, unknown fields) is reported
	positions := 120
	if os.Getenv("VERIF_TIER") == "thorough" {
		positions = 1000
	}
	for _, size := range []int{1, 9} {
		sd := r.Int63()
		fragCalls, failAt = 0, -1
		genPipeline(rand.New(rand.NewSource(sd)), size)
		total := fragCalls
		for _, k := range r.Perm(total) {
			if positions--; positions < 0 {
				break
			}
			fragCalls, failAt = 0, k
			doc := genPipeline(rand.New(rand.NewSource(sd)), size)
			failAt = -1
			p, _ := pipeline.Parse(strings.NewReader(doc))
			if p == nil {
				t.Fatalf("parse failed\n%s", doc)
			}
			cases++
			if err := p.Interpolate(&mapEnv{m: map[string]string{"X": "ex", "Y": "why"}}, false); err == nil {
				failures++
				if failures < 6 {
					t.Errorf("a failing expansion at string position %d of %d was not reported\n%s", k, total, doc)
				}
			}
		}
	}
	fragCalls, failAt = 0, -1
	p, _ := pipeline.Parse(strings.NewReader("steps:\n  - command: \"${X?required}\"\n"))
	cases++
	if err := p.Interpolate(&mapEnv{m: map[string]string{}}, false); err == nil {
		failures++
		t.Errorf("failing expansion not reported")
	}
	fmt.Printf("BOUNDED name=c04-trees cases=%d failures=%d\n", cases, failures)
}

// ---- C10 ----

type entry struct{ k, v string }

func refEnvBlock(block []entry, env *mapEnv, preferRuntime bool) ([]entry, error) {
	var out []entry
	for _, e := range block {
		ik, err := interpolate.Interpolate(env, e.k)
		if err != nil {
			return nil, err
		}
		iv, err := interpolate.Interpolate(env, e.v)
		if err != nil {
			return nil, err
		}
		out = append(out, entry{ik, iv})
		if _, exists := env.Get(ik); !(preferRuntime && exists) {
			env.Set(ik, iv)
		}
	}
	return out, nil
}

func TestC10(t *testing.T) {
	r := rand.New(rand.NewSource(seed()))
	cases, failures := 0, 0
	names := []string{"A", "B", "C", "d", "RT"}
	vals := []string{"1", "$A", "${B}-x", "$RT", "$$A", "$C$A", "${d}", "lit", "$a-lower", "${b}", "$rt", "${D}-upper", "$c$A", "${REQ?required}", "${A?set-in-half-the-runs}"} // other letter cases: the caller's name equality decides
	rounds := 300
	if os.Getenv("VERIF_TIER") == "thorough" {
		rounds = 5000
	}
	for n := 0; n < rounds; n++ {
		ln := 1 + r.Intn(4)
		used := map[string]bool{}
		var block []entry
		for len(block) < ln {
			k := names[r.Intn(len(names))]
			if r.Intn(6) == 0 {
				k = "N_$A" // name built by expansion
			}
			if r.Intn(25) == 0 {
				k = "N_${REQ?required}" // a name whose expansion fails
			}
			if used[k] {
				continue
			}
			used[k] = true
			block = append(block, entry{k, vals[r.Intn(len(vals))]})
		}
		for _, prefer := range []bool{false, true} {
			for _, fold := range []bool{false, true} {
				mk := func() *mapEnv {
					e := &mapEnv{m: map[string]string{}, fold: fold}
					e.Set("RT", "runtime$A${B}") // a value that looks like a reference
					if n%2 == 0 {
						e.Set("A", "rtA")
					}
					return e
				}
				// expanded names must not collide with later original names (in-place rename precondition)
				refEnv := mk()
				want, err := refEnvBlock(block, refEnv, prefer)
				if err != nil {
					// a failing expansion in a name or a value of the block is reported by Interpolate
					var sb strings.Builder
					sb.WriteString("env:\n")
					for _, e := range block {
						fmt.Fprintf(&sb, "  %s: %s\n", yamlStr(e.k), yamlStr(e.v))
					}
					sb.WriteString("steps:\n  - command: \"$A\"\n")
					p, perr := pipeline.Parse(strings.NewReader(sb.String()))
					if perr != nil {
						t.Fatal(perr)
					}
					cases++
					if p.Interpolate(mk(), prefer) == nil {
						failures++
						if failures < 5 {
							t.Errorf("block %v prefer=%v fold=%v: the reference fails (%v) but Interpolate reported no error", block, prefer, fold, err)
						}
					}
					continue
				}
				collide := false
				seen := map[string]bool{}
				for i, e := range want {
					for j := i + 1; j < len(block); j++ {
						if e.k == block[j].k {
							collide = true
						}
					}
					if seen[e.k] {
						collide = true
					}
					seen[e.k] = true
				}
				if collide {
					continue
				}
				var sb strings.Builder
				sb.WriteString("env:\n")
				for _, e := range block {
					fmt.Fprintf(&sb, "  %s: %s\n", yamlStr(e.k), yamlStr(e.v))
				}
				sb.WriteString("steps:\n  - command: \"$A|$B|$C|$d|$RT|$a|$D\"\n")
				p, err := pipeline.Parse(strings.NewReader(sb.String()))
				if err != nil {
					t.Fatal(err)
				}
				env := mk()
				if err := p.Interpolate(env, prefer); err != nil {
					t.Fatalf("interpolate: %v", err)
				}
				cases++
				var got []entry
				p.Env.Range(func(k, v string) error { got = append(got, entry{k, v}); return nil })
				if !reflect.DeepEqual(got, want) {
					failures++
					if failures < 5 {
						t.Errorf("block %v prefer=%v fold=%v: env block %v, want %v", block, prefer, fold, got, want)
					}
				}
				if !reflect.DeepEqual(env.m, refEnv.m) {
					failures++
					if failures < 5 {
						t.Errorf("block %v prefer=%v fold=%v: caller env %v, want %v", block, prefer, fold, env.m, refEnv.m)
					}
				}
				wantCmd, _ := interpolate.Interpolate(refEnv, "$A|$B|$C|$d|$RT|$a|$D")
				if c := p.Steps[0].(*pipeline.CommandStep).Command; c != wantCmd {
					failures++
					if failures < 5 {
						t.Errorf("block %v prefer=%v fold=%v: command %q, want %q", block, prefer, fold, c, wantCmd)
					}
				}
			}
		}
	}
	fmt.Printf("BOUNDED name=c10-envblocks cases=%d failures=%d\n", cases, failures)
}

// ---- C12 ----

func isNameRune(c rune) bool {
	return unicode.IsLetter(c) && c < 128 || unicode.IsDigit(c) && c < 128 || c == '_' || c == '-' || c == '.'
}

// refTokens: hand-written tokenizer for {{\s*matrix(\.[\w-\.]+)?\s*}} (leftmost, greedy like RE2)
func refReplace(s string, repl map[string]string) (string, []string) {
	var out strings.Builder
	var unknown []string
	i := 0
	for i < len(s) {
		if strings.HasPrefix(s[i:], "{{") {
			j := i + 2
			for j < len(s) && isSpace(s[j]) {
				j++
			}
			if strings.HasPrefix(s[j:], "matrix") {
				j += len("matrix")
				group := ""
				k := j
				if k < len(s) && s[k] == '.' {
					m := k + 1
					for m < len(s) && isNameRune(rune(s[m])) {
						m++
					}
					if m > k+1 {
						group = s[k:m]
						k = m
					}
				}
				e := k
				for e < len(s) && isSpace(s[e]) {
					e++
				}
				if strings.HasPrefix(s[e:], "}}") {
					v, ok := repl[group]
					if !ok {
						unknown = append(unknown, group)
					}
					out.WriteString(v)
					i = e + 2
					continue
				}
			}
		}
		out.WriteByte(s[i])
		i++
	}
	return out.String(), unknown
}

func isSpace(b byte) bool {
	return b == ' ' || b == '\t' || b == '\n' || b == '\r' || b == '\f' || b == '\v'
}

func TestC12(t *testing.T) {
	cases, failures := 0, 0
	perm := pipeline.MatrixPermutation{"os": "linux", "a-b.c_1": "{{matrix.os}}", "arch": "x"}
	repl := map[string]string{".os": "linux", ".a-b.c_1": "{{matrix.os}}", ".arch": "x"}
	alphabet := []string{"{{", "}}", "matrix", ".os", ".a-b.c_1", ".zz", " ", "x", ".", "{", "m"}
	maxLen := 5
	if os.Getenv("VERIF_TIER") == "thorough" {
		maxLen = 6
	}
	mk := func(cmd string) *pipeline.CommandStep {
		return &pipeline.CommandStep{
			Command: cmd, Label: cmd, Key: "key {{matrix.os}}",
			Env:             map[string]string{"N{{matrix.os}}": cmd},
			Plugins:         pipeline.Plugins{{Source: cmd, Config: map[string]any{"k{{matrix.os}}": cmd}}},
			Matrix:          &pipeline.Matrix{Setup: pipeline.MatrixSetup{"os": {"linux"}, "a-b.c_1": {"{{matrix.os}}"}, "arch": {"x", "{{matrix.os}}"}}},
			Signature:       &pipeline.Signature{Algorithm: "a{{matrix.os}}", SignedFields: []string{"{{matrix.os}}"}, Value: "{{matrix.os}}"},
			RemainingFields: map[string]any{"u{{matrix.os}}": []any{cmd, 1}},
		}
	}
	var rec func(prefix string, n int)
	check := func(cmd string) {
		cases++
		want, unknown := refReplace(cmd, repl)
		c := mk(cmd)
		err := c.InterpolateMatrixPermutation(perm)
		if len(unknown) > 0 {
			if err == nil {
				failures++
				t.Errorf("%q: unknown dimension %v did not fail", cmd, unknown)
			}
			return
		}
		if err != nil {
			failures++
			t.Errorf("%q: %v", cmd, err)
			return
		}
		wantKeyU, _ := refReplace("u{{matrix.os}}", repl)
		ok := c.Command == want && c.Label == want && c.Plugins[0].Source == want && c.Env["N{{matrix.os}}"] == want &&
			c.Key == "key {{matrix.os}}" && c.Signature.Value == "{{matrix.os}}" && c.Signature.Algorithm == "a{{matrix.os}}" &&
			c.Signature.SignedFields[0] == "{{matrix.os}}" && len(c.Env) == 1 &&
			reflect.DeepEqual(c.Matrix.Setup, pipeline.MatrixSetup{"os": {"linux"}, "a-b.c_1": {"{{matrix.os}}"}, "arch": {"x", "{{matrix.os}}"}})
		if ok {
			u, has := c.RemainingFields[wantKeyU]
			ok = has && reflect.DeepEqual(u, []any{want, 1})
			cfg := c.Plugins[0].Config.(map[string]any)
			ok = ok && cfg["klinux"] == want
		}
		if !ok {
			failures++
			if failures < 6 {
				b, _ := json.Marshal(c)
				t.Errorf("%q: wrong result (want %q): %s", cmd, want, b)
			}
		}
	}
	rec = func(prefix string, n int) {
		check(prefix)
		if n == maxLen {
			return
		}
		for _, a := range alphabet {
			rec(prefix+a, n+1)
		}
	}
	rec("", 0)
	// a single anonymous dimension: {{matrix}} is the token, every {{matrix.X}} is unknown; the value looks like a token
	anonRepl := map[string]string{"": "{{matrix}}"}
	var recAnon func(prefix string, n int)
	recAnon = func(prefix string, n int) {
		cases++
		want, unknown := refReplace(prefix, anonRepl)
		c := &pipeline.CommandStep{Command: prefix, Label: prefix, Matrix: &pipeline.Matrix{Setup: pipeline.MatrixSetup{"": {"{{matrix}}", "v"}}},
			Env: map[string]string{"N{{matrix}}": prefix}, RemainingFields: map[string]any{"u": prefix}}
		err := c.InterpolateMatrixPermutation(pipeline.MatrixPermutation{"": "{{matrix}}"})
		switch {
		case len(unknown) > 0 && err == nil:
			failures++
			t.Errorf("anonymous dimension, %q: unknown dimension %v did not fail", prefix, unknown)
		case len(unknown) == 0 && err != nil:
			failures++
			t.Errorf("anonymous dimension, %q: %v", prefix, err)
		case len(unknown) == 0 && (c.Command != want || c.Label != want || c.Env["N{{matrix}}"] != want || c.RemainingFields["u"] != want):
			failures++
			if failures < 6 {
				t.Errorf("anonymous dimension, %q: command %q label %q env %v, want %q", prefix, c.Command, c.Label, c.Env, want)
			}
		}
		if n == maxLen-1 {
			return
		}
		for _, a := range alphabet {
			recAnon(prefix+a, n+1)
		}
	}
	recAnon("", 0)
	// empty permutation changes nothing; non-empty permutation without matrix is rejected
	c := mk("{{matrix.os}}")
	c.Matrix = nil
	before, _ := json.Marshal(c)
	cases++
	if err := c.InterpolateMatrixPermutation(pipeline.MatrixPermutation{}); err != nil {
		failures++
		t.Errorf("empty permutation: %v", err)
	}
	after, _ := json.Marshal(c)
	if string(before) != string(after) {
		failures++
		t.Errorf("empty permutation changed the step")
	}
	keys := make([]string, 0)
	for k := range repl {
		keys = append(keys, k)
	}
	sort.Strings(keys)
	fmt.Printf("BOUNDED name=c12-tokens cases=%d failures=%d\n", cases, failures)
}
