package c19

// Bounded stand-in for the schedule-quantified part of C19 (not proof): run
// under the race detector (bounded/run.sh c19 -race).
//   - shared: 16 goroutines observe ONE ordered map (with tombstones), ONE
//     parsed pipeline and ONE key set concurrently - lookups, iteration,
//     equality, marshalling, signing, verifying. Any write by an observer is a
//     race the detector reports; afterwards the observed objects must be
//     deeply equal (unexported fields included) to untouched twins.
//   - distinct: 16 goroutines each parse, interpolate, marshal, sign and
//     verify their own copy; every result must equal the sequential result.

import (
	"context"
	"encoding/json"
	"fmt"
	"math/rand"
	"os"
	"reflect"
	"strings"
	"sync"
	"testing"

	pipeline "github.com/buildkite/go-pipeline"
	"github.com/buildkite/go-pipeline/jwkutil"
	"github.com/buildkite/go-pipeline/ordered"
	"github.com/buildkite/go-pipeline/signature"
	"github.com/lestrrat-go/jwx/v2/jwa"
	"gopkg.in/yaml.v3"
)

const goroutines = 16

func rounds() int {
	if os.Getenv("VERIF_TIER") == "thorough" {
		return 150
	}
	return 12
}

func seed() int64 {
	var s int64 = 1
	fmt.Sscan(os.Getenv("VERIF_SEED"), &s)
	return s
}

// errList collects failures from the goroutines (bounded, never blocks).
type errList struct {
	mu   sync.Mutex
	list []string
}

func (e *errList) add(s string) {
	e.mu.Lock()
	if len(e.list) < 20 {
		e.list = append(e.list, s)
	}
	e.mu.Unlock()
}

type mapEnv struct{ m map[string]string }

func (e *mapEnv) Get(k string) (string, bool) { v, ok := e.m[k]; return v, ok }
func (e *mapEnv) Set(k, v string)             { e.m[k] = v }

// buildMap builds an ordered map by a fixed operation sequence that leaves
// tombstones behind (deletions below the compaction threshold, replaces).
func buildMap(r *rand.Rand, n int) *ordered.Map[string, any] {
	m := ordered.NewMap[string, any](0)
	for i := 0; i < n; i++ {
		m.Set(fmt.Sprintf("k%02d", i), map[string]any{"i": i, "s": fmt.Sprint("v", r.Intn(100))})
	}
	for i := 0; i < n/4; i++ {
		m.Delete(fmt.Sprintf("k%02d", r.Intn(n)))
	}
	for i := 0; i < n/8; i++ {
		m.Replace(fmt.Sprintf("k%02d", r.Intn(n)), fmt.Sprintf("r%02d", i), "replaced")
	}
	inner := ordered.NewMap[string, any](0)
	inner.Set("x", "1")
	inner.Set("y", []any{"a", "b"})
	inner.Delete("x")
	m.Set("inner", inner)
	return m
}

func genDoc(r *rand.Rand) string {
	var sb strings.Builder
	sb.WriteString("env:\n  A: \"a-$X\"\n  B: \"${A}-b\"\n")
	sb.WriteString("notify:\n  - slack: \"#chan-$X\"\n")
	sb.WriteString("steps:\n")
	n := 2 + r.Intn(3)
	for i := 0; i < n; i++ {
		fmt.Fprintf(&sb, "  - command: \"make t%d $X {{matrix.os}}\"\n    label: \"l%d {{ matrix.arch }}\"\n    key: \"k%d\"\n", i, i, i)
		fmt.Fprintf(&sb, "    env:\n      E%d: \"$B\"\n      F: \"f\"\n", i)
		fmt.Fprintf(&sb, "    plugins:\n      - docker#v%d:\n          image: \"img-$X\"\n      - cache: ~\n", r.Intn(9))
		sb.WriteString("    matrix:\n      setup:\n        os: [linux, mac]\n        arch: [amd64]\n      adjustments:\n        - with: {os: win, arch: arm}\n          skip: true\n")
		fmt.Fprintf(&sb, "    extra_%d: {z: 1, a: [\"$X\", 2]}\n", i)
	}
	sb.WriteString("  - wait\n")
	sb.WriteString("  - block: \"go $X\"\n")
	sb.WriteString("  - trigger: \"other\"\n    build: {message: \"m $X\"}\n")
	sb.WriteString("  - group: \"g\"\n    steps:\n      - command: \"inner $X\"\n        plugins: [\"a/b#v1\"]\n      - wait: ~\n")
	return sb.String()
}

func parse(t *testing.T, doc string) *pipeline.Pipeline {
	p, err := pipeline.Parse(strings.NewReader(doc))
	if err != nil {
		t.Fatalf("parse: %v\n%s", err, doc)
	}
	return p
}

func commandSteps(s pipeline.Steps) []*pipeline.CommandStep {
	var out []*pipeline.CommandStep
	for _, st := range s {
		switch x := st.(type) {
		case *pipeline.CommandStep:
			out = append(out, x)
		case *pipeline.GroupStep:
			out = append(out, commandSteps(x.Steps)...)
		}
	}
	return out
}

func collect(m *ordered.Map[string, any]) []string {
	var out []string
	m.Range(func(k string, v any) error { out = append(out, k); return nil })
	return out
}

func TestC19(t *testing.T) {
	ctx := context.Background()
	cases, failures := 0, 0
	fail := func(f string, a ...any) { failures++; t.Errorf(f, a...) }
	priv, pub, err := jwkutil.NewKeyPair("kid", jwa.EdDSA)
	if err != nil {
		t.Fatal(err)
	}
	signer, _ := priv.Key(0)
	for round := 0; round < rounds(); round++ {
		rs := seed()*1000 + int64(round)
		// ---------- shared, read-only ----------
		m := buildMap(rand.New(rand.NewSource(rs)), 24+round%9)
		twin := buildMap(rand.New(rand.NewSource(rs)), 24+round%9)
		doc := genDoc(rand.New(rand.NewSource(rs)))
		p, ptwin := parse(t, doc), parse(t, doc)
		steps := commandSteps(p.Steps)
		// sign the shared pipeline's steps once (sequentially): the signatures are then shared read-only too
		if err := signature.SignSteps(ctx, p.Steps, signer, "repo", signature.WithEnv(map[string]string{"P": "v"})); err != nil {
			t.Fatal(err)
		}
		if err := signature.SignSteps(ctx, ptwin.Steps, signer, "repo", signature.WithEnv(map[string]string{"P": "v"})); err != nil {
			t.Fatal(err)
		}
		// signed_fields in an order Sign does not produce (still a valid signature)
		for _, pp := range []*pipeline.Pipeline{p, ptwin} {
			for _, cs := range commandSteps(pp.Steps) {
				f := cs.Signature.SignedFields
				for i, j := 0, len(f)-1; i < j; i, j = i+1, j-1 {
					f[i], f[j] = f[j], f[i]
				}
			}
		}
		wantKeys := collect(m)
		wantJSON, _ := json.Marshal(m)
		wantP, _ := json.Marshal(p)
		var wg sync.WaitGroup
		errs := &errList{}
		for g := 0; g < goroutines; g++ {
			wg.Add(1)
			go func(g int) {
				defer wg.Done()
				for it := 0; it < 3; it++ {
					for _, k := range wantKeys {
						if _, ok := m.Get(k); !ok || !m.Contains(k) {
							errs.add("lookup of live key failed: " + k)
						}
					}
					if _, ok := m.Get("k-deleted-or-absent"); ok {
						errs.add("lookup of absent key succeeded")
					}
					if m.Len() != len(wantKeys) || m.IsZero() {
						errs.add("Len/IsZero changed")
					}
					if got := collect(m); !reflect.DeepEqual(got, wantKeys) {
						errs.add("iteration order changed")
					}
					if !ordered.Equal(m, twin) || !ordered.Equal(twin, m) {
						errs.add("Equal(m, twin) false")
					}
					if um := m.ToMap(); len(um) != len(wantKeys) {
						errs.add("ToMap size")
					}
					if b, err := json.Marshal(m); err != nil || string(b) != string(wantJSON) {
						errs.add("json.Marshal(map) changed")
					}
					if _, err := yaml.Marshal(m); err != nil {
						errs.add("yaml.Marshal(map): " + err.Error())
					}
					if b, err := json.Marshal(p); err != nil || string(b) != string(wantP) {
						errs.add("json.Marshal(pipeline) changed")
					}
					if _, err := yaml.Marshal(p); err != nil {
						errs.add("yaml.Marshal(pipeline): " + err.Error())
					}
					for _, cs := range steps {
						for _, pl := range cs.Plugins {
							_ = pl.FullSource()
						}
						sf := &signature.CommandStepWithInvariants{CommandStep: *cs, RepositoryURL: "repo"}
						if err := signature.Verify(ctx, cs.Signature, pub, sf, signature.WithEnv(map[string]string{"P": "v"})); err != nil {
							errs.add("Verify on the shared step: " + err.Error())
						}
						if _, err := signature.Sign(ctx, signer, sf, signature.WithEnv(map[string]string{"P": "v"})); err != nil {
							errs.add("Sign on the shared step: " + err.Error())
						}
					}
				}
			}(g)
		}
		wg.Wait()
		for _, e := range errs.list {
			fail("round %d shared: %s", round, e)
		}
		cases += goroutines
		if !reflect.DeepEqual(m, twin) {
			fail("round %d: observers modified the shared ordered map (differs from its untouched twin, unexported fields included)", round)
		}
		// leftover (inline) keys named like fields that are emitted - a state reached by interpolating a
		// key, or built in code; yaml.v3 refuses to write it, so only the JSON marshalers observe it.
		// They must not remove the shadowed keys from the object they marshal.
		mkShadowed := func() *pipeline.Pipeline {
			g := "grp"
			cs := &pipeline.CommandStep{Command: "c", Label: "l", Key: "k", RemainingFields: map[string]any{"label": "shadowed", "command": "shadowed", "other": 1}}
			gs := &pipeline.GroupStep{Group: &g, Key: "gk", Steps: pipeline.Steps{cs}, RemainingFields: map[string]any{"group": "shadowed", "steps": "shadowed", "key": "shadowed"}}
			return &pipeline.Pipeline{Steps: pipeline.Steps{gs}, RemainingFields: map[string]any{"steps": "shadowed", "notify": []any{"x"}}}
		}
		sh, shTwin := mkShadowed(), mkShadowed()
		shadowJSON, _ := json.Marshal(shTwin)
		shTwin = mkShadowed()
		var wg2 sync.WaitGroup
		for g := 0; g < goroutines; g++ {
			wg2.Add(1)
			go func() {
				defer wg2.Done()
				for i := 0; i < 5; i++ {
					if b, err := json.Marshal(sh); err != nil || string(b) != string(shadowJSON) {
						errs.add(fmt.Sprintf("json.Marshal of the pipeline with shadowed leftover keys: %s (%v), want %s", b, err, shadowJSON))
					}
				}
			}()
		}
		wg2.Wait()
		cases += goroutines
		if !reflect.DeepEqual(sh, shTwin) {
			fail("round %d: the JSON marshalers modified the object they marshal (shadowed leftover keys removed?)", round)
		}
		// signatures differ only if the algorithm is randomised; EdDSA is deterministic
		if !reflect.DeepEqual(p, ptwin) {
			fail("round %d: observers modified the shared pipeline (differs from its untouched twin)", round)
		}
		// signing is an observer too, apart from the signature it attaches:
		// without the signatures the pipeline must equal a pristine parse
		for _, cs := range commandSteps(p.Steps) {
			cs.Signature = nil
		}
		if pristine := parse(t, doc); !reflect.DeepEqual(p, pristine) {
			fail("round %d: signing/verifying/marshalling modified the pipeline beyond attaching signatures (differs from a pristine parse)", round)
		}
		cases += 3

		// ---------- distinct objects ----------
		run := func() (string, error) {
			q, err := pipeline.Parse(strings.NewReader(doc))
			if err != nil {
				return "", err
			}
			env := &mapEnv{m: map[string]string{"X": "x-val"}}
			if err := q.Interpolate(env, false); err != nil {
				return "", err
			}
			for _, cs := range commandSteps(q.Steps) {
				if cs.Matrix != nil && len(cs.Matrix.Setup) > 0 {
					if err := cs.InterpolateMatrixPermutation(pipeline.MatrixPermutation{"os": "linux", "arch": "amd64"}); err != nil {
						return "", err
					}
				}
			}
			if err := signature.SignSteps(ctx, q.Steps, signer, "repo", signature.WithEnv(env.m)); err != nil {
				return "", err
			}
			for _, cs := range commandSteps(q.Steps) {
				sf := &signature.CommandStepWithInvariants{CommandStep: *cs, RepositoryURL: "repo"}
				if err := signature.Verify(ctx, cs.Signature, pub, sf, signature.WithEnv(env.m)); err != nil {
					return "", err
				}
			}
			j, err := json.Marshal(q)
			if err != nil {
				return "", err
			}
			y, err := yaml.Marshal(q)
			if err != nil {
				return "", err
			}
			return string(j) + "\n---\n" + string(y), nil
		}
		want, err := run()
		if err != nil {
			t.Fatalf("sequential run: %v", err)
		}
		results := make([]string, goroutines)
		rerrs := make([]error, goroutines)
		for g := 0; g < goroutines; g++ {
			wg.Add(1)
			go func(g int) {
				defer wg.Done()
				results[g], rerrs[g] = run()
			}(g)
		}
		wg.Wait()
		for g := 0; g < goroutines; g++ {
			cases++
			if rerrs[g] != nil {
				fail("round %d goroutine %d: %v", round, g, rerrs[g])
			} else if results[g] != want {
				fail("round %d goroutine %d: concurrent result differs from the sequential one", round, g)
			}
		}
	}
	fmt.Printf("BOUNDED name=c19-race cases=%d failures=%d\n", cases, failures)
}
