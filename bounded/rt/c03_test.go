package rt

// C03 (bounded stand-in): parse then marshal yields the documented normal form
// with no data loss, for documents derived from the pipeline grammar in
// gen_test.go, rendered as YAML (block/flow, every quoting style, merges) or
// JSON, and marshalled back to JSON and to YAML.

import (
	"bytes"
	"encoding/json"
	"fmt"
	"math/rand"
	"testing"

	pipeline "github.com/buildkite/go-pipeline"
	"github.com/buildkite/go-pipeline/warning"
	"gopkg.in/yaml.v3"
)

func TestC03(t *testing.T) {
	cases, failures := 0, 0
	n := 1500
	if thorough() {
		n = 40000
	}
	r := rand.New(rand.NewSource(seed()))
	for i := 0; i < n && failures < 12; i++ {
		g := &gen{r: r}
		d := g.document()
		var text []byte
		form := ""
		switch i % 3 {
		case 0:
			text, form = renderJSON(d.in), "json"
		case 1:
			text, form = renderYAML(r, d.in, false), "yaml"
		default:
			text, form = renderYAML(r, d.in, true), "yaml+merges"
		}
		p, err := pipeline.Parse(bytes.NewReader(text))
		if err != nil && !warning.Is(err) {
			failures++
			t.Errorf("case %d (%s): Parse failed: %v\n%s", i, form, err, text)
			continue
		}
		cases++
		j, err := json.Marshal(p)
		if err != nil {
			failures++
			t.Errorf("case %d (%s): json.Marshal: %v\n%s", i, form, err, text)
			continue
		}
		jt, err := jsonToTree(j)
		if err != nil {
			t.Fatalf("output is not JSON: %v\n%s", err, j)
		}
		if dmsg := diff("$", d.want, jt); dmsg != "" {
			failures++
			t.Errorf("case %d (%s): JSON output differs from the normal form: %s\n--- input ---\n%s\n--- output ---\n%s", i, form, dmsg, text, j)
			continue
		}
		y, err := yaml.Marshal(p)
		if err != nil {
			failures++
			t.Errorf("case %d (%s): yaml.Marshal: %v\n%s", i, form, err, text)
			continue
		}
		yt, err := yamlToTree(y)
		if err != nil {
			failures++
			t.Errorf("case %d (%s): YAML output does not parse: %v\n%s", i, form, err, y)
			continue
		}
		if dmsg := diff("$", yamlShape(d.want), yt); dmsg != "" {
			failures++
			t.Errorf("case %d (%s): YAML output differs from the normal form: %s\n--- input ---\n%s\n--- output ---\n%s", i, form, dmsg, text, y)
		}
	}
	fmt.Printf("BOUNDED name=c03-normal-form cases=%d failures=%d\n", cases, failures)
}
