package rt

// Shared machinery of the round-trip stand-ins (C02, C03, C08, C09): a grammar
// of pipeline documents generated together with their expected normal form,
// renderers (YAML through yaml.Node with random styles, anchors, aliases and
// merges; JSON), and order-preserving parsers of the marshalled output.

import (
	"bytes"
	"encoding/json"
	"fmt"
	"math/rand"
	"os"
	"reflect"
	"sort"
	"strings"
	"unicode"

	"gopkg.in/yaml.v3"
)

// ---- ordered generic trees ----

type kv struct {
	K string
	V any
}

// omap is a mapping whose order matters (document order).
type omap []kv

func (m omap) get(k string) (any, bool) {
	for _, e := range m {
		if e.K == k {
			return e.V, true
		}
	}
	return nil, false
}

// umap is an expected mapping whose order is not significant.
type umap map[string]any

func seed() int64 {
	var s int64 = 1
	fmt.Sscan(os.Getenv("VERIF_SEED"), &s)
	return s
}

func thorough() bool { return os.Getenv("VERIF_TIER") == "thorough" }

// ---- scalars ----

var trickyStrings = []string{
	"plain", "two words", "yes", "no", "on", "off", "y", "n", "true", "false", "null", "~", "Null", "0x1f", "0o17", "017", "1e3", "1_000", ".inf", ".nan", "-.5",
	"2002-08-15", "2001-12-14t21:59:43.10-05:00", "<<", "=", "123", "1.5", "+12", "0", "-", "- dash", ": colon", "a: b", "# hash", "a #b", "[", "]", "{a}", "a, b",
	"*star", "&amp", "!bang", "%pct", "@at", "`tick", "|pipe", ">gt", "'single'", "\"double\"", "it's", "back\\slash", "tab\there", "multi\nline", "trailing\n", "cr\rlf\r\n",
	"trail ", "unicode ✓ é 日本", "emoji 🚀", "nbsp x", "$VAR", "$$ESC", "{{matrix}}", "?", "? q", "key: value: more", "---", "...", "", " lead",
	// numeric-looking strings at the edge of yaml.v3's resolver (it strips every '_' before parsing integers, accepts 0b/0o/0x and a sign):
	// as a key or a value each must come back as the same string (seed C08k: a hand-written quoting test narrower than the resolver)
	"1_", "1__0", "0x1_", "-1_", "_1", "0b1_0", "-0b11", "0o1_7", "+0x_f", "1_2.3_4", ".5_", "1e1_0", "+.inf", "-.INF", ".NaN", "0_", "1_e3", "._5", "12e03", "0b", "0x",
}

// genString: strings over tab, LF, CR and printable Unicode outside C0/C1/DEL.
// Multi-line strings that begin with whitespace are left out (the YAML
// library's emitter cannot round-trip them; excluded by C09's statement).
func genString(r *rand.Rand) string {
	for {
		s := genString0(r)
		if strings.ContainsAny(s, "\n\r") && s != "" && strings.ContainsAny(s[:1], " \t\n\r") {
			continue
		}
		return s
	}
}

func genString0(r *rand.Rand) string {
	switch r.Intn(10) {
	case 0:
		// random printable unicode outside C0/C1/DEL, plus tab/LF/CR
		n := 1 + r.Intn(8)
		var sb strings.Builder
		for i := 0; i < n; i++ {
			switch c := r.Intn(12); {
			case c == 0:
				sb.WriteByte("\t\n\r"[r.Intn(3)])
			case c < 8:
				sb.WriteRune(rune(0x20 + r.Intn(0x5f)))
			case c < 10:
				// printable only: the statement's domain excludes format and separator
				// characters such as U+00AD, U+200B, U+2028, U+2029
				ch := rune(0xa0 + r.Intn(0x2000))
				for !unicode.IsPrint(ch) {
					ch = rune(0xa0 + r.Intn(0x2000))
				}
				sb.WriteRune(ch)
			default:
				ch := rune(0x1f300 + r.Intn(0x200))
				for !unicode.IsPrint(ch) {
					ch = rune(0x1f300 + r.Intn(0x200))
				}
				sb.WriteRune(ch)
			}
		}
		return sb.String()
	default:
		return trickyStrings[r.Intn(len(trickyStrings))]
	}
}

func genScalar(r *rand.Rand) any {
	switch r.Intn(9) {
	case 0:
		return r.Intn(2000) - 1000
	case 1:
		return []float64{2.5, -0.25, 1e-3, 123456.75, 3.0e10 + 0.5}[r.Intn(5)]
	case 2:
		return r.Intn(2) == 0
	case 3:
		return nil
	default:
		return genString(r)
	}
}

var extraKeys = []string{"agents", "retry", "timeout_in_minutes", "x-custom", "weird key", "123", "true", "null", "a.b", "depends_on", "soft_fail", "if", "branches", "~", "0x1f", "é", "k:colon", "k#hash", "UPPER", "<<x"}

func genValue(r *rand.Rand, depth int) any {
	switch c := r.Intn(10); {
	case c < 3 && depth > 0:
		return genOmap(r, depth-1, 1+r.Intn(4))
	case c < 5 && depth > 0:
		n := r.Intn(4)
		out := make([]any, 0, n)
		for i := 0; i < n; i++ {
			out = append(out, genValue(r, depth-1))
		}
		return out
	}
	return genScalar(r)
}

func genOmap(r *rand.Rand, depth, n int) omap {
	var m omap
	used := map[string]bool{}
	for len(m) < n {
		var k string
		if r.Intn(3) == 0 {
			k = genString(r)
		} else {
			k = extraKeys[r.Intn(len(extraKeys))]
		}
		if used[k] {
			if n > len(extraKeys)/2 {
				k = fmt.Sprintf("%s-%d", k, len(m))
			} else {
				continue
			}
		}
		used[k] = true
		m = append(m, kv{k, genValue(r, depth)})
	}
	return m
}

// ---- the pipeline grammar: input form and expected normal form, side by side ----

type doc struct {
	in   any // omap or []any
	want any // expected marshalled content (umap where order is free, omap where it matters)
	desc []string
}

func fmtScalar(v any) string { return fmt.Sprint(v) }

var pluginSources = []struct{ in, full string }{
	{"docker#v1.2.3", "github.com/buildkite-plugins/docker-buildkite-plugin#v1.2.3"},
	{"cache", "github.com/buildkite-plugins/cache-buildkite-plugin"},
	{"my-org/thing#v2", "github.com/my-org/thing-buildkite-plugin#v2"},
	{"https://example.com/x/y.git#v3", "https://example.com/x/y.git#v3"},
	{"./local/plugin", "./local/plugin"},
	{"github.com/buildkite-plugins/docker-buildkite-plugin#v9", "github.com/buildkite-plugins/docker-buildkite-plugin#v9"},
	{"ssh://git@host/a/b#x", "ssh://git@host/a/b#x"},
}

// unordered converts an ordered tree into one whose mappings are order-free
// (plugin configs lose their order by design).
func unordered(v any) any {
	switch x := v.(type) {
	case omap:
		out := umap{}
		for _, e := range x {
			out[e.K] = unordered(e.V)
		}
		return out
	case []any:
		out := make([]any, len(x))
		for i, e := range x {
			out[i] = unordered(e)
		}
		return out
	}
	return v
}

func emptyConfig(v any) bool {
	switch x := v.(type) {
	case nil:
		return true
	case omap:
		return len(x) == 0
	case []any:
		return len(x) == 0
	}
	return false
}

// extras adds unknown keys to a step / pipeline: they must come out unchanged
// (nested mappings keep their order).
func (g *gen) extras(in *omap, want umap, taken map[string]bool) {
	for i := g.r.Intn(4); i > 0; i-- {
		k := extraKeys[g.r.Intn(len(extraKeys))]
		if g.r.Intn(4) == 0 {
			k = genString(g.r)
		}
		if taken[k] {
			continue
		}
		taken[k] = true
		v := genValue(g.r, 2)
		*in = append(*in, kv{k, v})
		want[k] = v
	}
}

type gen struct {
	r      *rand.Rand
	simple bool // plain strings only (used where the leg under test cannot carry arbitrary text)
}

func (g *gen) str() string {
	if g.simple {
		return []string{"alpha", "beta gamma", "make test", "v1", "x-y_z", "Hello World"}[g.r.Intn(6)]
	}
	s := genString(g.r)
	if s == "" {
		return "nonempty"
	}
	if strings.ContainsAny(s[:1], " \t") {
		// command lines are joined with newlines: a first line that begins with
		// whitespace would make an excluded multi-line string
		s = "x" + s
	}
	return s
}

var commandKnown = map[string]bool{"command": true, "commands": true, "label": true, "name": true, "key": true, "id": true, "identifier": true, "plugins": true, "env": true,
	"signature": true, "matrix": true, "cache": true, "type": true, "wait": true, "waiter": true, "block": true, "input": true, "manual": true, "trigger": true, "group": true, "steps": true}

func clone(m map[string]bool) map[string]bool {
	out := map[string]bool{}
	for k, v := range m {
		out[k] = v
	}
	return out
}

func (g *gen) commandStep() (omap, umap) {
	r := g.r
	var in omap
	want := umap{}
	taken := clone(commandKnown)
	// command / commands
	switch r.Intn(6) {
	case 0:
		c := g.str()
		in = append(in, kv{"command", c})
		want["command"] = c
	case 1:
		a, b := g.str(), g.str()
		in = append(in, kv{"commands", []any{a, b}})
		want["command"] = a + "\n" + b
	case 2:
		a, b, c := g.str(), g.str(), g.str()
		in = append(in, kv{"command", []any{a, b, c}})
		want["command"] = a + "\n" + b + "\n" + c
	case 3:
		c := g.str()
		in = append(in, kv{"commands", c})
		want["command"] = c
	case 4:
		// an empty command is still a command step
		in = append(in, kv{"command", ""})
		want["command"] = ""
	default:
		// a commandless plugin step
		in = append(in, kv{"plugins", []any{"cache"}})
		want["command"] = ""
		want["plugins"] = []any{umap{"github.com/buildkite-plugins/cache-buildkite-plugin": nil}}
		taken["__plugins_done"] = true
	}
	// label / name
	switch r.Intn(4) {
	case 0:
		l := g.str()
		in = append(in, kv{"label", l})
		want["label"] = l
	case 1:
		l := g.str()
		in = append(in, kv{"name", l})
		want["label"] = l
	case 2:
		l, n := g.str(), g.str()
		if r.Intn(2) == 0 {
			in = append(in, kv{"label", l}, kv{"name", n})
		} else {
			in = append(in, kv{"name", n}, kv{"label", l})
		}
		want["label"] = l
		want["name"] = n
	}
	// key / id / identifier
	switch r.Intn(5) {
	case 0:
		k := g.str()
		in = append(in, kv{"key", k})
		want["key"] = k
	case 1:
		k := g.str()
		in = append(in, kv{"id", k})
		want["key"] = k
	case 2:
		k := g.str()
		in = append(in, kv{"identifier", k})
		want["key"] = k
	case 3:
		a, b := g.str(), g.str()
		in = append(in, kv{"identifier", b}, kv{"id", a})
		want["key"] = a // id is the first alias
		want["identifier"] = b
	}
	// env
	if r.Intn(2) == 0 {
		e := omap{}
		we := umap{}
		for i := r.Intn(4); i > 0; i-- {
			k := fmt.Sprintf("E%d", i)
			v := genScalar(r)
			if g.simple {
				v = g.str()
			}
			if v == nil {
				v = "x"
			}
			e = append(e, kv{k, v})
			we[k] = fmtScalar(v)
		}
		in = append(in, kv{"env", e})
		if len(we) > 0 {
			want["env"] = we
		}
	}
	// plugins
	if !taken["__plugins_done"] && r.Intn(12) == 0 {
		// an empty plugin list is omitted (and signs like an absent one)
		in = append(in, kv{"plugins", []any{}})
		taken["__plugins_done"] = true
	}
	if !taken["__plugins_done"] && r.Intn(2) == 0 {
		n := 1 + r.Intn(3)
		var wl []any
		form := r.Intn(3)
		var list []any
		var mapping omap
		usedSrc := map[string]bool{}
		for i := 0; i < n; i++ {
			ps := pluginSources[r.Intn(len(pluginSources))]
			if usedSrc[ps.in] && form == 2 {
				continue // one mapping cannot hold the same key twice; a list may name a plugin twice
			}
			usedSrc[ps.in] = true
			var cfg any
			switch r.Intn(5) {
			case 0:
				cfg = nil
			case 1:
				cfg = omap{}
			case 2:
				// a scalar or a list as the whole config; the zero scalars are values, not absences (seed C02k:
				// the YAML leg alone wrote them as null, so the re-parsed step no longer verified)
				cfg = []any{false, 0, "", 0.0, true, "text", 7, []any{}, []any{"a", 0}}[r.Intn(9)]
			default:
				cfg = genOmap(r, 2, 1+r.Intn(3))
			}
			if g.simple {
				if _, isM := cfg.(omap); isM && len(cfg.(omap)) > 0 {
					cfg = omap{{"image", "alpine"}, {"n", 3}, {"flag", true}, {"nested", omap{{"a", []any{"x", 1}}}}}
				}
			}
			wcfg := unordered(cfg)
			if emptyConfig(cfg) {
				wcfg = nil
			}
			wl = append(wl, umap{ps.full: wcfg})
			switch form {
			case 0:
				list = append(list, omap{{ps.in, cfg}})
			case 1:
				if cfg == nil && r.Intn(2) == 0 {
					list = append(list, ps.in)
				} else {
					list = append(list, omap{{ps.in, cfg}})
				}
			default:
				mapping = append(mapping, kv{ps.in, cfg})
			}
		}
		if form == 2 {
			in = append(in, kv{"plugins", mapping})
		} else {
			in = append(in, kv{"plugins", list})
		}
		want["plugins"] = wl
	}
	// matrix
	switch r.Intn(12) {
	case 8:
		// named dimensions only: no adjustments, no other keys
		in = append(in, kv{"matrix", omap{{"setup", omap{{"os", []any{"linux", "mac"}}, {"arch", []any{"amd64"}}}}}})
		want["matrix"] = umap{"setup": umap{"os": []any{"linux", "mac"}, "arch": []any{"amd64"}}}
	case 9:
		// one named dimension
		in = append(in, kv{"matrix", omap{{"setup", omap{{"os", []any{"linux", 7}}}}}})
		want["matrix"] = umap{"setup": umap{"os": []any{"linux", "7"}}}
	case 6:
		// a matrix without a setup is an empty matrix
		in = append(in, kv{"matrix", omap{}})
		want["matrix"] = umap{"setup": umap{}}
	case 7:
		in = append(in, kv{"matrix", omap{{"adjustments", []any{omap{{"with", omap{{"os", "win"}}}, {"skip", "not on windows"}}}}}})
		want["matrix"] = umap{"setup": umap{}, "adjustments": []any{umap{"with": umap{"os": "win"}, "skip": "not on windows"}}}
	case 0:
		a, b := genScalar(r), genScalar(r)
		if a == nil || g.simple {
			a = "linux"
		}
		if b == nil || g.simple {
			b = 7
		}
		in = append(in, kv{"matrix", []any{a, b}})
		want["matrix"] = []any{fmtScalar(a), fmtScalar(b)}
	case 1:
		in = append(in, kv{"matrix", omap{{"setup", omap{{"os", []any{"linux", 11}}, {"arch", []any{"amd64", true}}}},
			{"adjustments", []any{omap{{"with", omap{{"os", "win"}, {"arch", 386}}}, {"skip", true}, {"soft_fail", true}},
				omap{{"with", omap{{"os", true}, {"arch", "x"}}}}}}}})
		want["matrix"] = umap{"setup": umap{"os": []any{"linux", "11"}, "arch": []any{"amd64", "true"}},
			"adjustments": []any{umap{"with": umap{"os": "win", "arch": "386"}, "skip": true, "soft_fail": true},
				umap{"with": umap{"os": "true", "arch": "x"}}}}
	case 2:
		in = append(in, kv{"matrix", omap{{"setup", []any{"a", 2}}, {"adjustments", []any{omap{{"with", "c"}, {"skip", "reason"}}, omap{{"with", true}}, omap{{"with", 3}, {"soft_fail", false}}, omap{{"with", 1.5}}, omap{{"skip", true}}}}}})
		want["matrix"] = umap{"setup": []any{"a", "2"}, "adjustments": []any{umap{"with": "c", "skip": "reason"}, umap{"with": "true"}, umap{"with": "3", "soft_fail": false}, umap{"with": "1.5"}, umap{"with": umap{}, "skip": true}}}
	}
	// cache
	switch r.Intn(8) {
	case 0:
		in = append(in, kv{"cache", "path/a"})
		want["cache"] = umap{"paths": []any{"path/a"}}
	case 1:
		in = append(in, kv{"cache", []any{"p1", "p2"}})
		want["cache"] = umap{"paths": []any{"p1", "p2"}}
	case 2:
		in = append(in, kv{"cache", omap{{"paths", []any{"p"}}, {"size", "20g"}, {"name", "n"}, {"extra", omap{{"z", 1}, {"a", 2}}}}})
		want["cache"] = umap{"paths": []any{"p"}, "size": "20g", "name": "n", "extra": omap{{"z", 1}, {"a", 2}}}
	case 3:
		in = append(in, kv{"cache", false})
		want["cache"] = false
	case 4:
		// `cache: true` is an enabled cache without settings
		in = append(in, kv{"cache", true})
		want["cache"] = umap{}
	}
	// a key of a lower-ranked step family next to the command keys: still a command step (the key is
	// an extra key), wherever it stands in the document
	switch g.r.Intn(16) {
	case 0:
		in = append(in, kv{"wait", nil})
		want["wait"] = nil
	case 1:
		in = append(in, kv{"trigger", "elsewhere"})
		want["trigger"] = "elsewhere"
	}
	g.extras(&in, want, taken)
	g.r.Shuffle(len(in), func(i, j int) { in[i], in[j] = in[j], in[i] })
	return in, want
}

func (g *gen) waitStep() (any, any) {
	switch g.r.Intn(5) {
	case 0:
		return "wait", "wait"
	case 1:
		return "waiter", "waiter"
	case 2:
		in := omap{{"wait", nil}}
		want := umap{"wait": nil}
		taken := clone(commandKnown)
		g.extras(&in, want, taken)
		return in, want
	case 3:
		in := omap{{"type", "wait"}, {"continue_on_failure", true}}
		return in, umap{"type": "wait", "continue_on_failure": true}
	default:
		s := g.str()
		in := omap{{"wait", s}, {"if", "build.branch == 'main'"}}
		return in, umap{"wait": s, "if": "build.branch == 'main'"}
	}
}

func (g *gen) inputStep() (any, any) {
	kind := []string{"block", "input", "manual"}[g.r.Intn(3)]
	if g.r.Intn(4) == 0 {
		return kind, kind
	}
	s := g.str()
	in := omap{{kind, s}, {"fields", []any{omap{{"text", "Name"}, {"key", "name"}, {"required", false}}, omap{{"select", "Pick"}, {"options", []any{omap{{"label", "A"}, {"value", 1}}}}}}}}
	want := umap{kind: s, "fields": []any{omap{{"text", "Name"}, {"key", "name"}, {"required", false}}, omap{{"select", "Pick"}, {"options", []any{omap{{"label", "A"}, {"value", 1}}}}}}}
	taken := clone(commandKnown)
	taken["fields"] = true
	if g.r.Intn(4) == 0 {
		// a trigger key written first: the input family still outranks it
		in = append(omap{{"trigger", "elsewhere"}}, in...)
		want["trigger"] = "elsewhere"
	}
	g.extras(&in, want, taken)
	return in, want
}

func (g *gen) triggerStep() (any, any) {
	s := g.str()
	build := omap{{"message", g.str()}, {"env", omap{{"Z", "1"}, {"A", 2}}}, {"branch", "main"}}
	in := omap{{"trigger", s}, {"build", build}, {"async", true}}
	want := umap{"trigger": s, "build": build, "async": true}
	taken := clone(commandKnown)
	taken["build"], taken["async"] = true, true
	g.extras(&in, want, taken)
	return in, want
}

func (g *gen) unknownStep() (any, any) {
	if g.r.Intn(4) == 0 {
		s := "mystery-" + g.str()
		return s, s
	}
	m := omap{{"mystery", genValue(g.r, 2)}}
	taken := clone(commandKnown)
	taken["mystery"] = true
	for i := g.r.Intn(3); i > 0; i-- {
		k := extraKeys[g.r.Intn(len(extraKeys))]
		if !taken[k] {
			taken[k] = true
			m = append(m, kv{k, genValue(g.r, 2)})
		}
	}
	return m, m // verbatim, order included
}

func (g *gen) groupStep(depth int) (any, any) {
	var in omap
	want := umap{}
	taken := clone(commandKnown)
	switch g.r.Intn(4) {
	case 0:
		n := g.str()
		in = append(in, kv{"group", n})
		want["group"] = n
	case 1:
		in = append(in, kv{"group", nil})
		want["group"] = nil
	case 2:
		n, l := g.str(), g.str()
		in = append(in, kv{"group", n}, kv{"label", l})
		want["group"] = n
		want["label"] = l
	default:
		n := g.str()
		in = append(in, kv{"group", n}, kv{"id", "gid"})
		want["group"] = n
		want["key"] = "gid"
	}
	var sin, swant []any
	for i := 1 + g.r.Intn(3); i > 0; i-- {
		a, b := g.step(depth - 1)
		sin = append(sin, a)
		swant = append(swant, b)
	}
	in = append(in, kv{"steps", sin})
	want["steps"] = swant
	g.extras(&in, want, taken)
	return in, want
}

func (g *gen) step(depth int) (any, any) {
	switch c := g.r.Intn(12); {
	case c < 5:
		a, b := g.commandStep()
		return a, b
	case c < 6:
		return g.waitStep()
	case c < 7:
		return g.inputStep()
	case c < 8:
		return g.triggerStep()
	case c < 10 && depth > 0:
		return g.groupStep(depth)
	case c < 11 && !g.simple && depth == 2:
		// (an unknown step inside a group turns the whole group into an unknown step; kept out of the grammar)
		return g.unknownStep()
	}
	a, b := g.commandStep()
	return a, b
}

// document generates a whole pipeline: mapping form or bare step list.
func (g *gen) document() doc {
	var sin, swant []any
	for i := 1 + g.r.Intn(4); i > 0; i-- {
		a, b := g.step(2)
		sin = append(sin, a)
		swant = append(swant, b)
	}
	if g.r.Intn(5) == 0 {
		return doc{in: sin, want: umap{"steps": swant}}
	}
	var in omap
	want := umap{"steps": swant}
	taken := map[string]bool{"steps": true, "env": true}
	if g.r.Intn(2) == 0 {
		var e, we omap
		n := g.r.Intn(12)
		for i := 0; i < n; i++ {
			k := fmt.Sprintf("%c_VAR%d", 'A'+rune(g.r.Intn(26)), i)
			v := genScalar(g.r)
			if g.simple {
				v = g.str()
			}
			if v == nil {
				v = "nil-ish"
			}
			e = append(e, kv{k, v})
			we = append(we, kv{k, fmtScalar(v)})
		}
		in = append(in, kv{"env", e})
		if len(we) > 0 {
			want["env"] = we // the env block is order-preserving (an empty block is omitted)
		}
	}
	in = append(in, kv{"steps", sin})
	g.extras(&in, want, taken)
	g.r.Shuffle(len(in), func(i, j int) { in[i], in[j] = in[j], in[i] })
	return doc{in: in, want: want}
}

// ---- rendering ----

func renderJSON(v any) []byte {
	var b bytes.Buffer
	var w func(v any)
	w = func(v any) {
		switch x := v.(type) {
		case omap:
			b.WriteByte('{')
			for i, e := range x {
				if i > 0 {
					b.WriteByte(',')
				}
				k, _ := json.Marshal(e.K)
				b.Write(k)
				b.WriteByte(':')
				w(e.V)
			}
			b.WriteByte('}')
		case []any:
			b.WriteByte('[')
			for i, e := range x {
				if i > 0 {
					b.WriteByte(',')
				}
				w(e)
			}
			b.WriteByte(']')
		default:
			j, err := json.Marshal(x)
			if err != nil {
				panic(err)
			}
			b.Write(j)
		}
	}
	w(v)
	return b.Bytes()
}

// yamlNode renders a tree as a yaml.Node with random styles.
func yamlNode(r *rand.Rand, v any, flow bool) *yaml.Node {
	switch x := v.(type) {
	case omap:
		n := &yaml.Node{Kind: yaml.MappingNode, Tag: "!!map"}
		if flow || r.Intn(6) == 0 {
			n.Style = yaml.FlowStyle
			flow = true
		}
		for _, e := range x {
			n.Content = append(n.Content, yamlScalar(r, e.K, true), yamlNode(r, e.V, flow))
		}
		return n
	case []any:
		n := &yaml.Node{Kind: yaml.SequenceNode, Tag: "!!seq"}
		if flow || r.Intn(6) == 0 {
			n.Style = yaml.FlowStyle
			flow = true
		}
		for _, e := range x {
			n.Content = append(n.Content, yamlNode(r, e, flow))
		}
		return n
	}
	return yamlScalar(r, v, false)
}

func yamlScalar(r *rand.Rand, v any, key bool) *yaml.Node {
	n := &yaml.Node{Kind: yaml.ScalarNode}
	switch x := v.(type) {
	case nil:
		n.Tag, n.Value = "!!null", []string{"null", "~", ""}[r.Intn(2)]
	case bool:
		n.Tag, n.Value = "!!bool", fmt.Sprint(x)
	case int:
		n.Tag, n.Value = "!!int", fmt.Sprint(x)
	case float64:
		n.Tag, n.Value = "!!float", fmt.Sprint(x)
	case string:
		n.Tag, n.Value = "!!str", x
		if x == "<<" {
			// yaml.v3 emits a !!str node "<<" unquoted, which reads back as a merge key
			n.Style = yaml.DoubleQuotedStyle
			return n
		}
		switch r.Intn(4) {
		case 0:
			n.Style = yaml.DoubleQuotedStyle
		case 1:
			if !strings.ContainsAny(x, "\n\r\t") && !strings.Contains(x, "\u0085") {
				n.Style = yaml.SingleQuotedStyle
			}
		case 2:
			if strings.Contains(x, "\n") && !key {
				n.Style = yaml.LiteralStyle
			}
		}
	}
	return n
}

// decorate rewrites some mapping nodes so that part of their content comes
// through an anchor + merge, or a value is an alias of an identical subtree.
func decorate(r *rand.Rand, root *yaml.Node) {
	count := 0
	var walk func(n *yaml.Node, depth int)
	walk = func(n *yaml.Node, depth int) {
		if n.Kind == yaml.MappingNode && len(n.Content) >= 4 && depth > 0 && r.Intn(4) == 0 && n.Style != yaml.FlowStyle {
			// move one non-first pair into an anchored base mapping merged in place
			i := 2 * (1 + r.Intn(len(n.Content)/2-1))
			if n.Content[i].Tag == "!!str" && n.Content[i].Value != "<<" {
				count++
				base := &yaml.Node{Kind: yaml.MappingNode, Tag: "!!map", Anchor: fmt.Sprintf("b%d", count), Content: []*yaml.Node{n.Content[i], n.Content[i+1]}}
				holder := &yaml.Node{Kind: yaml.ScalarNode, Tag: "!!merge", Value: "<<"}
				// the base must be defined before use: define it inline in a sequence of sources
				src := &yaml.Node{Kind: yaml.SequenceNode, Tag: "!!seq", Style: yaml.FlowStyle, Content: []*yaml.Node{base}}
				n.Content[i], n.Content[i+1] = holder, src
			}
		}
		for _, c := range n.Content {
			walk(c, depth+1)
		}
	}
	walk(root, 0)
}

func renderYAML(r *rand.Rand, v any, withMerges bool) []byte {
	n := yamlNode(r, v, false)
	if withMerges {
		decorate(r, n)
	}
	out, err := yaml.Marshal(n)
	if err != nil {
		panic(err)
	}
	return out
}

// ---- parsing marshalled output into ordered trees ----

func jsonToTree(data []byte) (any, error) {
	dec := json.NewDecoder(bytes.NewReader(data))
	dec.UseNumber()
	var read func() (any, error)
	read = func() (any, error) {
		tok, err := dec.Token()
		if err != nil {
			return nil, err
		}
		switch t := tok.(type) {
		case json.Delim:
			switch t {
			case '{':
				m := omap{}
				for dec.More() {
					kt, err := dec.Token()
					if err != nil {
						return nil, err
					}
					v, err := read()
					if err != nil {
						return nil, err
					}
					m = append(m, kv{kt.(string), v})
				}
				dec.Token()
				return m, nil
			case '[':
				l := []any{}
				for dec.More() {
					v, err := read()
					if err != nil {
						return nil, err
					}
					l = append(l, v)
				}
				dec.Token()
				return l, nil
			}
		case json.Number:
			f, _ := t.Float64()
			return f, nil
		}
		return tok, nil
	}
	return read()
}

func yamlToTree(data []byte) (any, error) {
	var n yaml.Node
	if err := yaml.Unmarshal(data, &n); err != nil {
		return nil, err
	}
	var conv func(n *yaml.Node) (any, error)
	conv = func(n *yaml.Node) (any, error) {
		switch n.Kind {
		case yaml.DocumentNode:
			if len(n.Content) == 0 {
				return nil, nil
			}
			return conv(n.Content[0])
		case yaml.AliasNode:
			return conv(n.Alias)
		case yaml.MappingNode:
			m := omap{}
			for i := 0; i+1 < len(n.Content); i += 2 {
				var k any
				if err := n.Content[i].Decode(&k); err != nil {
					return nil, err
				}
				v, err := conv(n.Content[i+1])
				if err != nil {
					return nil, err
				}
				ks, ok := k.(string)
				if !ok {
					ks = n.Content[i].Value
				}
				m = append(m, kv{ks, v})
			}
			return m, nil
		case yaml.SequenceNode:
			l := []any{}
			for _, c := range n.Content {
				v, err := conv(c)
				if err != nil {
					return nil, err
				}
				l = append(l, v)
			}
			return l, nil
		}
		var v any
		if err := n.Decode(&v); err != nil {
			return nil, err
		}
		switch x := v.(type) {
		case int:
			return float64(x), nil
		case int64:
			return float64(x), nil
		case uint64:
			return float64(x), nil
		}
		return v, nil
	}
	return conv(&n)
}

// ---- comparison ----

func num(v any) any {
	switch x := v.(type) {
	case int:
		return float64(x)
	case int64:
		return float64(x)
	}
	return v
}

// diff compares an expected tree (umap: order free, omap: order significant)
// with a parsed output tree (always omap). It returns "" when they agree.
func diff(path string, want, got any) string {
	switch w := want.(type) {
	case umap:
		g, ok := got.(omap)
		if !ok {
			return fmt.Sprintf("%s: want a mapping, got %T %v", path, got, got)
		}
		seen := map[string]bool{}
		for _, e := range g {
			if seen[e.K] {
				return fmt.Sprintf("%s: key %q appears twice in the output", path, e.K)
			}
			seen[e.K] = true
			wv, ok := w[e.K]
			if !ok {
				return fmt.Sprintf("%s: unexpected key %q (= %v) in the output", path, e.K, e.V)
			}
			if d := diff(path+"."+e.K, wv, e.V); d != "" {
				return d
			}
		}
		var missing []string
		for k := range w {
			if !seen[k] {
				missing = append(missing, k)
			}
		}
		if len(missing) > 0 {
			sort.Strings(missing)
			return fmt.Sprintf("%s: keys %q of the input are missing from the output", path, missing)
		}
		return ""
	case omap:
		g, ok := got.(omap)
		if !ok {
			return fmt.Sprintf("%s: want an ordered mapping, got %T %v", path, got, got)
		}
		if len(g) != len(w) {
			return fmt.Sprintf("%s: %d keys, want %d (%v vs %v)", path, len(g), len(w), keysOf(g), keysOf(w))
		}
		for i := range w {
			if g[i].K != w[i].K {
				return fmt.Sprintf("%s: key order differs: got %q, want %q", path, keysOf(g), keysOf(w))
			}
			if d := diff(path+"."+w[i].K, w[i].V, g[i].V); d != "" {
				return d
			}
		}
		return ""
	case []any:
		g, ok := got.([]any)
		if !ok {
			return fmt.Sprintf("%s: want a sequence, got %T %v", path, got, got)
		}
		if len(g) != len(w) {
			return fmt.Sprintf("%s: %d elements, want %d", path, len(g), len(w))
		}
		for i := range w {
			if d := diff(fmt.Sprintf("%s[%d]", path, i), w[i], g[i]); d != "" {
				return d
			}
		}
		return ""
	}
	if !reflect.DeepEqual(num(want), num(got)) {
		return fmt.Sprintf("%s: got %#v, want %#v", path, got, want)
	}
	return ""
}

func keysOf(m omap) []string {
	out := make([]string, len(m))
	for i, e := range m {
		out[i] = e.K
	}
	return out
}

// yamlShape adapts an expected tree to the YAML leg: a disabled cache has no
// YAML shorthand and is written as {disabled: true}.
func yamlShape(v any) any {
	switch x := v.(type) {
	case umap:
		out := umap{}
		for k, e := range x {
			if k == "cache" && e == false {
				out[k] = umap{"disabled": true}
				continue
			}
			out[k] = yamlShape(e)
		}
		return out
	case omap:
		out := make(omap, len(x))
		for i, e := range x {
			out[i] = kv{e.K, yamlShape(e.V)}
		}
		return out
	case []any:
		out := make([]any, len(x))
		for i, e := range x {
			out[i] = yamlShape(e)
		}
		return out
	}
	return v
}

// ---- known findings (read-only: /verif/known_findings.txt is never written at run time) ----

// knownOpen reports whether an open finding with this witness is listed for the property.
func knownOpen(prop, witness string) (what string, ok bool) {
	dir := os.Getenv("VERIF_DIR")
	if dir == "" {
		dir = "/verif"
	}
	data, err := os.ReadFile(dir + "/known_findings.txt")
	if err != nil {
		return "", false
	}
	for _, line := range strings.Split(string(data), "\n") {
		line = strings.TrimSpace(line)
		if strings.HasPrefix(line, "open:") && strings.Contains(line, "property="+prop+" ") && strings.Contains(line, "witness="+witness+" ") {
			if i := strings.Index(line, "::"); i >= 0 {
				return strings.TrimSpace(line[i+2:]), true
			}
			return line, true
		}
	}
	return "", false
}

// hasMergeString: does the tree contain the string "<<" as a key or a value
// (the one scalar yaml.v3 emits unquoted although it reads back as a merge key)?
func hasMergeString(v any) bool {
	switch x := v.(type) {
	case omap:
		for _, e := range x {
			if e.K == "<<" || hasMergeString(e.V) {
				return true
			}
		}
	case umap:
		for k, e := range x {
			if k == "<<" || hasMergeString(e) {
				return true
			}
		}
	case []any:
		for _, e := range x {
			if hasMergeString(e) {
				return true
			}
		}
	case string:
		for _, l := range strings.Split(x, "\n") {
			if l == "<<" {
				return true
			}
		}
	}
	return false
}

// hasExcludedString: does the (parsed JSON) tree hold a multi-line string that
// begins with whitespace? Such strings are outside C09's / C02's statement on
// the YAML leg (yaml.v3's emitter cannot round-trip them); they can also arise
// from interpolation, so the generated input alone does not decide it.
func hasExcludedString(v any) bool {
	bad := func(s string) bool {
		return s != "" && strings.ContainsAny(s, "\n\r") && strings.ContainsAny(s[:1], " \t\n\r")
	}
	switch x := v.(type) {
	case omap:
		for _, e := range x {
			if bad(e.K) || hasExcludedString(e.V) {
				return true
			}
		}
	case []any:
		for _, e := range x {
			if hasExcludedString(e) {
				return true
			}
		}
	case string:
		return bad(x)
	}
	return false
}
