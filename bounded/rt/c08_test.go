package rt

// C08 (bounded stand-in): order-significant mappings keep document order
// through decode and encode - the pipeline env block, plugins written as one
// mapping, mappings nested in unknown fields / unknown steps (any size, tricky
// keys, merged keys standing where the merge key stood) - and programmatic
// ordered maps survive JSON and YAML encode-then-decode.

import (
	"bytes"
	"encoding/json"
	"fmt"
	"math/rand"
	"testing"

	pipeline "github.com/buildkite/go-pipeline"
	"github.com/buildkite/go-pipeline/ordered"
	"github.com/buildkite/go-pipeline/warning"
	"gopkg.in/yaml.v3"
)

// bigMapping: n distinct keys drawn from tricky strings, in random order.
func bigMapping(r *rand.Rand, n, depth int) omap {
	var m omap
	used := map[string]bool{}
	for len(m) < n {
		k := genString(r)
		if r.Intn(2) == 0 {
			k = fmt.Sprintf("%s%d", []string{"k", "", "1", "true", "Z", "a.b", "0x"}[r.Intn(7)], r.Intn(n*3))
		}
		if used[k] {
			continue
		}
		used[k] = true
		var v any = genScalar(r)
		if depth > 0 && r.Intn(5) == 0 {
			v = bigMapping(r, 1+r.Intn(12), depth-1)
		}
		m = append(m, kv{k, v})
	}
	return m
}

// mergeDoc builds a YAML text for "outer" in which a block of its keys comes
// through a merge standing at a given position, and returns the expected order.
func mergeDoc(r *rand.Rand) (text []byte, want omap) {
	base := bigMapping(r, 2+r.Intn(5), 0)
	var before, after omap
	used := map[string]bool{}
	for _, e := range base {
		used[e.K] = true
	}
	mk := func(n int) omap {
		var m omap
		for len(m) < n {
			k := fmt.Sprintf("x%d", r.Intn(40))
			if used[k] {
				continue
			}
			used[k] = true
			m = append(m, kv{k, genScalar(r)})
		}
		return m
	}
	before, after = mk(r.Intn(4)), mk(r.Intn(4))
	// optionally override one merged key explicitly, after the merge
	var override *kv
	if r.Intn(2) == 0 {
		o := kv{base[r.Intn(len(base))].K, "explicit"}
		override = &o
	}
	baseNode := yamlNode(r, base, false)
	baseNode.Anchor = "base"
	outer := &yaml.Node{Kind: yaml.MappingNode, Tag: "!!map"}
	for _, e := range before {
		outer.Content = append(outer.Content, yamlScalar(r, e.K, true), yamlNode(r, e.V, false))
		want = append(want, e)
	}
	outer.Content = append(outer.Content, &yaml.Node{Kind: yaml.ScalarNode, Tag: "!!merge", Value: "<<"}, &yaml.Node{Kind: yaml.AliasNode, Alias: baseNode, Value: "base"})
	for _, e := range base {
		if override != nil && e.K == override.K {
			continue
		}
		want = append(want, e)
	}
	for _, e := range after {
		outer.Content = append(outer.Content, yamlScalar(r, e.K, true), yamlNode(r, e.V, false))
		want = append(want, e)
	}
	if override != nil {
		outer.Content = append(outer.Content, yamlScalar(r, override.K, true), yamlScalar(r, override.V, false))
		want = append(want, *override)
	}
	root := &yaml.Node{Kind: yaml.MappingNode, Tag: "!!map", Content: []*yaml.Node{
		yamlScalar(r, "defs", true), baseNode,
		yamlScalar(r, "outer", true), outer,
		yamlScalar(r, "steps", true), yamlNode(r, []any{"wait"}, false),
	}}
	out, err := yaml.Marshal(root)
	if err != nil {
		panic(err)
	}
	return out, want
}

func TestC08(t *testing.T) {
	cases, failures := 0, 0
	knownHits, knownWhat := 0, ""
	fail := func(f string, a ...any) {
		failures++
		if failures <= 12 {
			t.Errorf(f, a...)
		}
	}
	n := 600
	if thorough() {
		n = 12000
	}
	r := rand.New(rand.NewSource(seed()))
	for i := 0; i < n && failures < 12; i++ {
		// --- documents: env block, mapping-form plugins, nested unknown mappings ---
		size := []int{0, 1, 2, 5, 9, 17, 40}[r.Intn(7)]
		env := omap{}
		wenv := omap{}
		for j := 0; j < size; j++ {
			k := fmt.Sprintf("V%d_%d", r.Intn(1000), j)
			v := genScalar(r)
			if v == nil {
				v = "x"
			}
			env = append(env, kv{k, v})
			wenv = append(wenv, kv{k, fmtScalar(v)})
		}
		nested := bigMapping(r, size+1, 2)
		var plug omap
		var wplug []any
		for _, j := range r.Perm(len(pluginSources))[:1+r.Intn(4)] {
			plug = append(plug, kv{pluginSources[j].in, nil})
			wplug = append(wplug, umap{pluginSources[j].full: nil})
		}
		unknownStep := omap{{"mystery", nested}, {"zzz", 1}, {"aaa", bigMapping(r, 3, 1)}}
		in := omap{{"env", env}, {"unknown_field", nested}, {"steps", []any{
			omap{{"command", "c"}, {"plugins", plug}, {"step_extra", nested}},
			unknownStep,
		}}}
		want := umap{"unknown_field": nested, "steps": []any{
			umap{"command": "c", "plugins": wplug, "step_extra": nested},
			unknownStep,
		}}
		if len(wenv) > 0 {
			want["env"] = wenv
		}
		var text []byte
		if i%2 == 0 {
			text = renderJSON(in)
		} else {
			text = renderYAML(r, in, false)
		}
		p, err := pipeline.Parse(bytes.NewReader(text))
		if err != nil && !warning.Is(err) {
			fail("case %d: Parse: %v\n%s", i, err, text)
			continue
		}
		cases++
		j, err := json.Marshal(p)
		if err != nil {
			fail("case %d: json.Marshal: %v", i, err)
			continue
		}
		jt, _ := jsonToTree(j)
		if d := diff("$", want, jt); d != "" {
			fail("case %d: JSON: %s\n--- input ---\n%s\n--- output ---\n%s", i, d, text, j)
			continue
		}
		y, err := yaml.Marshal(p)
		if err != nil {
			fail("case %d: yaml.Marshal: %v", i, err)
			continue
		}
		yt, err := yamlToTree(y)
		if err != nil {
			fail("case %d: YAML output does not parse: %v\n%s", i, err, y)
			continue
		}
		if d := diff("$", yamlShape(want), yt); d != "" {
			fail("case %d: YAML: %s\n--- input ---\n%s\n--- output ---\n%s", i, d, text, y)
			continue
		}
		// --- merged keys stand where the merge key stood ---
		mtext, mwant := mergeDoc(r)
		p, err = pipeline.Parse(bytes.NewReader(mtext))
		if err != nil && !warning.Is(err) {
			fail("case %d: Parse(merge doc): %v\n%s", i, err, mtext)
			continue
		}
		cases++
		j, _ = json.Marshal(p)
		jt, _ = jsonToTree(j)
		got, _ := jt.(omap).get("outer")
		if d := diff("$.outer", mwant, got); d != "" {
			fail("case %d: merge position: %s\n--- input ---\n%s\n--- output ---\n%s", i, d, mtext, j)
			continue
		}
		// --- programmatic maps survive encode then decode ---
		m := ordered.NewMap[string, any](0)
		var keys []string
		for _, e := range bigMapping(r, size+2, 0) {
			m.Set(e.K, e.V)
			keys = append(keys, e.K)
		}
		for d := r.Intn(3); d > 0 && len(keys) > 1; d-- {
			x := r.Intn(len(keys))
			m.Delete(keys[x])
			keys = append(keys[:x], keys[x+1:]...)
		}
		inner := ordered.NewMap[string, any](0)
		inner.Set("z", "1")
		inner.Set("a", []any{"x", inner0()})
		m.Set("inner", inner)
		cases++
		jb, err := json.Marshal(m)
		if err != nil {
			fail("case %d: json.Marshal(map): %v", i, err)
			continue
		}
		back := ordered.NewMap[string, any](0)
		if err := json.Unmarshal(jb, back); err != nil {
			fail("case %d: json.Unmarshal(map): %v\n%s", i, err, jb)
			continue
		}
		if !sameOrdered(m, back) {
			fail("case %d: ordered map differs after JSON encode+decode\n%s", i, jb)
			continue
		}
		if m.Contains("<<") {
			if what, ok := knownOpen("C08", "yaml-merge-string"); ok {
				knownHits++
				knownWhat = what
				continue
			}
		}
		yb, err := yaml.Marshal(m)
		if err != nil {
			fail("case %d: yaml.Marshal(map): %v", i, err)
			continue
		}
		back = ordered.NewMap[string, any](0)
		if err := yaml.Unmarshal(yb, back); err != nil {
			fail("case %d: yaml.Unmarshal(map): %v\n%s", i, err, yb)
			continue
		}
		if !sameOrdered(m, back) {
			fail("case %d: ordered map differs after YAML encode+decode\n%s", i, yb)
		}
		// typed ordered maps (string values; shallow *yaml.Node values; slice values) through the same legs
		ss := ordered.NewMap[string, string](0)
		sl := ordered.NewMap[string, []any](0)
		var tkeys []string
		m.Range(func(k string, v any) error {
			if k == "<<" {
				return nil // the merge-key spelling is the separate finding above
			}
			tkeys = append(tkeys, k)
			ss.Set(k, "v-"+k)
			sl.Set(k, []any{k, "x"})
			return nil
		})
		cases++
		sameKeys := func(what string, got []string) {
			if fmt.Sprintf("%q", got) != fmt.Sprintf("%q", tkeys) {
				fail("case %d: %s: keys %q, want %q", i, what, got, tkeys)
			}
		}
		if jb, err := json.Marshal(ss); err != nil {
			fail("case %d: json.Marshal(Map[string,string]): %v", i, err)
		} else {
			back := ordered.NewMap[string, string](0)
			if err := json.Unmarshal(jb, back); err != nil {
				fail("case %d: json.Unmarshal(Map[string,string]): %v\n%s", i, err, jb)
			} else if !ordered.Equal(ss, back) {
				fail("case %d: Map[string,string] differs after JSON encode+decode\n%s", i, jb)
			}
		}
		if yb, err := yaml.Marshal(ss); err != nil {
			fail("case %d: yaml.Marshal(Map[string,string]): %v", i, err)
		} else {
			back := ordered.NewMap[string, string](0)
			if err := yaml.Unmarshal(yb, back); err != nil {
				fail("case %d: yaml.Unmarshal(Map[string,string]): %v\n%s", i, err, yb)
			} else if !ordered.Equal(ss, back) {
				fail("case %d: Map[string,string] differs after YAML encode+decode\n%s", i, yb)
			}
			shallow := ordered.NewMap[string, *yaml.Node](0)
			if err := yaml.Unmarshal(yb, shallow); err != nil {
				fail("case %d: yaml.Unmarshal(Map[string,*yaml.Node]): %v\n%s", i, err, yb)
			} else {
				var got []string
				shallow.Range(func(k string, n *yaml.Node) error {
					got = append(got, k)
					if want, _ := ss.Get(k); n == nil || n.Value != want {
						fail("case %d: shallow decode: value node of %q is %v, want %q", i, k, n, want)
					}
					return nil
				})
				sameKeys("shallow YAML decode", got)
			}
		}
		if yb, err := yaml.Marshal(sl); err != nil {
			fail("case %d: yaml.Marshal(Map[string,[]any]): %v", i, err)
		} else {
			back := ordered.NewMap[string, []any](0)
			if err := yaml.Unmarshal(yb, back); err != nil {
				fail("case %d: yaml.Unmarshal(Map[string,[]any]): %v\n%s", i, err, yb)
			} else {
				var got []string
				back.Range(func(k string, v []any) error {
					got = append(got, k)
					if len(v) != 2 || v[0] != k || v[1] != "x" {
						fail("case %d: Map[string,[]any][%q] = %v after YAML encode+decode", i, k, v)
					}
					return nil
				})
				sameKeys("Map[string,[]any] YAML decode", got)
			}
		}
	}
	if knownHits > 0 {
		fmt.Printf("KNOWN-FINDING: property=C08 %s (%d generated maps skipped on the YAML leg)\n", knownWhat, knownHits)
	}
	fmt.Printf("BOUNDED name=c08-order cases=%d failures=%d\n", cases, failures)
}

func inner0() *ordered.Map[string, any] {
	m := ordered.NewMap[string, any](0)
	m.Set("q", "q")
	m.Set("b", true)
	return m
}

// sameOrdered: same keys, same order, same values (numbers compared as float64).
func sameOrdered(a, b any) bool {
	switch x := a.(type) {
	case *ordered.Map[string, any]:
		y, ok := b.(*ordered.Map[string, any])
		if !ok || x.Len() != y.Len() {
			return false
		}
		var ka, kb []string
		var va, vb []any
		x.Range(func(k string, v any) error { ka = append(ka, k); va = append(va, v); return nil })
		y.Range(func(k string, v any) error { kb = append(kb, k); vb = append(vb, v); return nil })
		for i := range ka {
			if ka[i] != kb[i] || !sameOrdered(va[i], vb[i]) {
				return false
			}
		}
		return true
	case []any:
		y, ok := b.([]any)
		if !ok || len(x) != len(y) {
			return false
		}
		for i := range x {
			if !sameOrdered(x[i], y[i]) {
				return false
			}
		}
		return true
	}
	return fmt.Sprint(num(a)) == fmt.Sprint(num(b))
}
