package rt

// C02 (bounded stand-in): signed steps still verify after JSON / YAML
// serialisation and re-parse - as a whole pipeline (Parse) and step by step the
// way an agent receives a job (CommandStep.UnmarshalJSON) - with a verification
// env that holds the pipeline env plus unrelated variables; all supported
// algorithms; nil versus empty env / plugins / matrix; short versus canonical
// plugin sources; non-string scalars in env, matrix and plugin configs.

import (
	"bytes"
	"context"
	"encoding/json"
	"fmt"
	"math/rand"
	"testing"

	pipeline "github.com/buildkite/go-pipeline"
	"github.com/buildkite/go-pipeline/jwkutil"
	"github.com/buildkite/go-pipeline/signature"
	"github.com/buildkite/go-pipeline/warning"
	"github.com/lestrrat-go/jwx/v2/jwa"
	"github.com/lestrrat-go/jwx/v2/jwk"
	"gopkg.in/yaml.v3"
)

type mapEnv struct{ m map[string]string }

func (e *mapEnv) Get(k string) (string, bool) { v, ok := e.m[k]; return v, ok }
func (e *mapEnv) Set(k, v string)             { e.m[k] = v }

func TestC02(t *testing.T) {
	ctx := context.Background()
	cases, failures := 0, 0
	knownHits, knownWhat := 0, ""
	excluded := 0
	fail := func(f string, a ...any) {
		failures++
		if failures <= 12 {
			t.Errorf(f, a...)
		}
	}
	type kp struct {
		name   string
		signer signature.Key
		pub    jwk.Set
	}
	var keys []kp
	for _, alg := range []jwa.SignatureAlgorithm{jwa.EdDSA, jwa.ES512, jwa.PS512} {
		priv, pub, err := jwkutil.NewKeyPair("kid-"+alg.String(), alg)
		if err != nil {
			t.Fatal(err)
		}
		k, _ := priv.Key(0)
		keys = append(keys, kp{alg.String(), k, pub})
	}
	n := 300
	if thorough() {
		n = 6000
	}
	r := rand.New(rand.NewSource(seed()))
	for i := 0; i < n && failures < 12; i++ {
		g := &gen{r: r}
		d := g.document()
		var text []byte
		if i%2 == 0 {
			text = renderJSON(d.in)
		} else {
			text = renderYAML(r, d.in, i%4 == 1)
		}
		key := keys[i%len(keys)]
		p, err := pipeline.Parse(bytes.NewReader(text))
		if err != nil && !warning.Is(err) {
			fail("case %d: Parse: %v\n%s", i, err, text)
			continue
		}
		hasUnknown := false
		for _, st := range p.Steps {
			if _, ok := st.(*pipeline.UnknownStep); ok {
				hasUnknown = true
			}
		}
		if hasUnknown {
			continue // signing refuses pipelines with unknown steps (C06)
		}
		interpolated := i%3 == 0
		if interpolated {
			if err := p.Interpolate(&mapEnv{m: map[string]string{"VAR": "value", "ESC": "esc"}}, false); err != nil {
				continue // an expansion error is not this property's business
			}
		}
		penv := map[string]string{}
		if p.Env != nil {
			penv = p.Env.ToMap()
		}
		if err := signature.SignSteps(ctx, p.Steps, key.signer, "git@example.com:org/repo.git", signature.WithEnv(penv)); err != nil {
			fail("case %d (%s): SignSteps: %v\n%s", i, key.name, err, text)
			continue
		}
		cases++
		venv := map[string]string{"UNRELATED": "x", "PATH": "/bin"}
		for k, v := range penv {
			venv[k] = v
		}
		verifyAll := func(leg string, q *pipeline.Pipeline, out []byte) {
			cs := commandSteps(q.Steps)
			if len(cs) != len(commandSteps(p.Steps)) {
				fail("case %d (%s, %s): %d command steps after the round trip, want %d\n%s", i, key.name, leg, len(cs), len(commandSteps(p.Steps)), out)
				return
			}
			for si, c := range cs {
				if c.Signature == nil {
					fail("case %d (%s, %s) step %d: signature lost\n%s", i, key.name, leg, si, out)
					continue
				}
				if err := signature.Verify(ctx, c.Signature, key.pub, &signature.CommandStepWithInvariants{CommandStep: *c, RepositoryURL: "git@example.com:org/repo.git"}, signature.WithEnv(venv)); err != nil {
					fail("case %d (%s, %s) step %d: signature does not verify after the round trip: %v\n--- input ---\n%s\n--- serialised ---\n%s", i, key.name, leg, si, err, text, out)
				}
			}
		}
		// JSON, whole pipeline
		j, err := json.Marshal(p)
		if err != nil {
			fail("case %d: json.Marshal: %v", i, err)
			continue
		}
		q, err := pipeline.Parse(bytes.NewReader(j))
		if err != nil && !warning.Is(err) {
			fail("case %d: re-parse JSON: %v\n%s", i, err, j)
			continue
		}
		verifyAll("json/Parse", q, j)
		// JSON, step by step (agent receives one job)
		for si, c := range commandSteps(p.Steps) {
			cj, _ := json.Marshal(c)
			var back pipeline.CommandStep
			if err := json.Unmarshal(cj, &back); err != nil {
				fail("case %d step %d: CommandStep.UnmarshalJSON: %v\n%s", i, si, err, cj)
				continue
			}
			if back.Signature == nil {
				fail("case %d step %d: signature lost by CommandStep.UnmarshalJSON\n%s", i, si, cj)
				continue
			}
			if err := signature.Verify(ctx, back.Signature, key.pub, &signature.CommandStepWithInvariants{CommandStep: back, RepositoryURL: "git@example.com:org/repo.git"}, signature.WithEnv(venv)); err != nil {
				fail("case %d (%s, json/step) step %d: signature does not verify: %v\n%s", i, key.name, si, err, cj)
			}
		}
		// YAML, whole pipeline
		if jt, err := jsonToTree(j); err == nil && hasExcludedString(jt) {
			excluded++
			continue
		}
		if hasMergeString(d.want) {
			if what, ok := knownOpen("C02", "yaml-merge-string"); ok {
				knownHits++
				knownWhat = what
				continue
			}
		}
		y, err := yaml.Marshal(p)
		if err != nil {
			fail("case %d: yaml.Marshal: %v", i, err)
			continue
		}
		q, err = pipeline.Parse(bytes.NewReader(y))
		if err != nil && !warning.Is(err) {
			fail("case %d: re-parse YAML: %v\n%s", i, err, y)
			continue
		}
		verifyAll("yaml/Parse", q, y)
	}
	// a leftover key that interpolation turns into the name of a signed field: the JSON output must
	// still carry the signed field (so the signature verifies after re-parsing); yaml.v3 refuses to
	// write such a step at all (listed finding, explicit witnesses)
	collisionReported := false
	for ci, field := range []string{"command", "env", "plugins", "matrix", "label"} {
		doc := "env: {P: v}\nsteps:\n  - command: make build\n    env: {A: b}\n    plugins: [docker#v1]\n    matrix: [x, y]\n    \"${EXTRA_FIELD}\": leftover\n"
		p, err := pipeline.Parse(bytes.NewReader([]byte(doc)))
		if err != nil {
			t.Fatalf("parse: %v", err)
		}
		if err := p.Interpolate(&mapEnv{m: map[string]string{"EXTRA_FIELD": field}}, false); err != nil {
			fail("collision %s: interpolate: %v", field, err)
			continue
		}
		key := keys[ci%len(keys)]
		penv := p.Env.ToMap()
		if err := signature.SignSteps(ctx, p.Steps, key.signer, "repo", signature.WithEnv(penv)); err != nil {
			fail("collision %s: SignSteps: %v", field, err)
			continue
		}
		cases++
		j, err := json.Marshal(p)
		if err != nil {
			fail("collision %s: json.Marshal: %v", field, err)
			continue
		}
		q, err := pipeline.Parse(bytes.NewReader(j))
		if err != nil && !warning.Is(err) {
			fail("collision %s: re-parse JSON: %v\n%s", field, err, j)
			continue
		}
		for _, c := range commandSteps(q.Steps) {
			if c.Signature == nil {
				fail("collision %s: signature lost\n%s", field, j)
			} else if err := signature.Verify(ctx, c.Signature, key.pub, &signature.CommandStepWithInvariants{CommandStep: *c, RepositoryURL: "repo"}, signature.WithEnv(penv)); err != nil {
				fail("collision %s: a leftover key named like the signed field %q changed what the JSON output carries: %v\n%s", field, field, err, j)
			}
		}
		yerr := func() (err error) {
			defer func() {
				if r := recover(); r != nil {
					err = fmt.Errorf("panic: %v", r)
				}
			}()
			_, err = yaml.Marshal(p)
			return
		}()
		if yerr != nil {
			if what, ok := knownOpen("C02", "interpolated-key-collides-with-field"); ok {
				if !collisionReported {
					fmt.Printf("KNOWN-FINDING: property=C02 %s\n", what)
				}
				collisionReported = true
			} else {
				fail("collision %s: yaml.Marshal: %v", field, yerr)
			}
		}
	}
	if knownHits > 0 {
		fmt.Printf("KNOWN-FINDING: property=C02 %s (%d generated documents skipped on the YAML leg)\n", knownWhat, knownHits)
	}
	fmt.Printf("BOUNDED name=c02-signed-roundtrip cases=%d failures=%d yaml_leg_excluded=%d\n", cases, failures, excluded)
}
