package rt

// C09 (bounded stand-in): the normal form is a fixpoint, the same via JSON and
// YAML, and deterministic. For generated documents: marshal the parsed
// pipeline to JSON and to YAML, re-parse each, and require the re-parsed
// pipeline to have the same step kinds and to marshal to the same bytes as the
// first; the stand-alone JSON decoders (one command step, a plugin list) must
// reproduce their part; repeated marshalling must be byte-identical.

import (
	"bytes"
	"encoding/json"
	"fmt"
	"math/rand"
	"strings"
	"testing"

	pipeline "github.com/buildkite/go-pipeline"
	"github.com/buildkite/go-pipeline/warning"
	"gopkg.in/yaml.v3"
)

func kinds(s pipeline.Steps) string {
	var sb strings.Builder
	for _, st := range s {
		fmt.Fprintf(&sb, "%T", st)
		if g, ok := st.(*pipeline.GroupStep); ok {
			sb.WriteString("[" + kinds(g.Steps) + "]")
		}
		sb.WriteString(",")
	}
	return sb.String()
}

func commandSteps(s pipeline.Steps) []*pipeline.CommandStep {
	var out []*pipeline.CommandStep
	for _, st := range s {
		switch x := st.(type) {
		case *pipeline.CommandStep:
			out = append(out, x)
		case *pipeline.GroupStep:
			out = append(out, commandSteps(x.Steps)...)
		}
	}
	return out
}

func TestC09(t *testing.T) {
	cases, failures := 0, 0
	knownHits, knownWhat := 0, ""
	fail := func(f string, a ...any) {
		failures++
		if failures <= 12 {
			t.Errorf(f, a...)
		}
	}
	n := 1200
	if thorough() {
		n = 30000
	}
	r := rand.New(rand.NewSource(seed()))
	for i := 0; i < n && failures < 12; i++ {
		g := &gen{r: r}
		d := g.document()
		var text []byte
		if i%2 == 0 {
			text = renderJSON(d.in)
		} else {
			text = renderYAML(r, d.in, i%4 == 1)
		}
		p1, err := pipeline.Parse(bytes.NewReader(text))
		if err != nil && !warning.Is(err) {
			fail("case %d: Parse: %v\n%s", i, err, text)
			continue
		}
		cases++
		j1, err := json.Marshal(p1)
		if err != nil {
			fail("case %d: json.Marshal: %v", i, err)
			continue
		}
		// deterministic
		for k := 0; k < 5; k++ {
			jk, _ := json.Marshal(p1)
			if !bytes.Equal(jk, j1) {
				fail("case %d: json.Marshal is not deterministic:\n%s\n%s", i, j1, jk)
				break
			}
		}
		y1, err := yaml.Marshal(p1)
		if err != nil {
			fail("case %d: yaml.Marshal: %v", i, err)
			continue
		}
		for k := 0; k < 5; k++ {
			yk, _ := yaml.Marshal(p1)
			if !bytes.Equal(yk, y1) {
				fail("case %d: yaml.Marshal is not deterministic", i)
				break
			}
		}
		// JSON leg
		p2, err := pipeline.Parse(bytes.NewReader(j1))
		if err != nil && !warning.Is(err) {
			fail("case %d: re-parsing the JSON output fails: %v\n%s", i, err, j1)
			continue
		}
		j2, _ := json.Marshal(p2)
		if kinds(p1.Steps) != kinds(p2.Steps) {
			fail("case %d: step kinds change across the JSON round trip: %s vs %s\n%s", i, kinds(p1.Steps), kinds(p2.Steps), j1)
			continue
		}
		if !bytes.Equal(j1, j2) {
			fail("case %d: JSON is not a fixpoint:\n first: %s\nsecond: %s", i, j1, j2)
			continue
		}
		// YAML leg
		if jt, err := jsonToTree(j1); err == nil && hasExcludedString(jt) {
			continue
		}
		if hasMergeString(d.want) {
			if what, ok := knownOpen("C09", "yaml-merge-string"); ok {
				knownHits++
				knownWhat = what
			} else {
				y2check(t, i, p1, j1, y1, fail)
			}
		} else {
			y2check(t, i, p1, j1, y1, fail)
		}
		// stand-alone decoders
		for ci, cs := range commandSteps(p1.Steps) {
			cj, err := json.Marshal(cs)
			if err != nil {
				fail("case %d: json.Marshal(step): %v", i, err)
				continue
			}
			var back pipeline.CommandStep
			if err := json.Unmarshal(cj, &back); err != nil {
				fail("case %d step %d: CommandStep.UnmarshalJSON: %v\n%s", i, ci, err, cj)
				continue
			}
			bj, _ := json.Marshal(&back)
			if !bytes.Equal(cj, bj) {
				fail("case %d step %d: CommandStep JSON is not a fixpoint:\n first: %s\nsecond: %s", i, ci, cj, bj)
			}
			if len(cs.Plugins) > 0 {
				pj, _ := json.Marshal(cs.Plugins)
				var pb pipeline.Plugins
				if err := json.Unmarshal(pj, &pb); err != nil {
					fail("case %d step %d: Plugins.UnmarshalJSON: %v\n%s", i, ci, err, pj)
					continue
				}
				pbj, _ := json.Marshal(pb)
				if !bytes.Equal(pj, pbj) {
					fail("case %d step %d: plugin list JSON is not a fixpoint:\n first: %s\nsecond: %s", i, ci, pj, pbj)
				}
			}
		}
	}
	// a null matrix dimension: JSON writes null, YAML writes [] (listed finding, explicit witness)
	{
		doc := "steps:\n  - command: x\n    matrix: {setup: {a: ~, b: [x]}}\n"
		p, err := pipeline.Parse(strings.NewReader(doc))
		if err == nil {
			cases++
			j, _ := json.Marshal(p)
			y, _ := yaml.Marshal(p)
			pj, _ := pipeline.Parse(bytes.NewReader(j))
			py, _ := pipeline.Parse(bytes.NewReader(y))
			jj, _ := json.Marshal(pj)
			jy, _ := json.Marshal(py)
			if !bytes.Equal(jj, jy) {
				if what, ok := knownOpen("C09", "null-matrix-dimension"); ok {
					fmt.Printf("KNOWN-FINDING: property=C09 %s\n", what)
				} else {
					fail("null matrix dimension: JSON and YAML outputs re-parse differently: %s vs %s", jj, jy)
				}
			}
		}
	}
	emptyPrimaryReported := false
	// an empty (or null) primary key next to one of its aliases: the first output drops the empty
	// primary (omitempty) and keeps the alias, which the second parse then promotes (listed finding,
	// explicit witnesses)
	for _, doc := range []string{
		"steps:\n  - command: x\n    key: \"\"\n    id: foo\n",
		"steps:\n  - command: x\n    label: ~\n    name: n\n",
		"steps:\n  - group: g\n    key: \"\"\n    identifier: i\n    steps: [wait]\n",
	} {
		p, err := pipeline.Parse(strings.NewReader(doc))
		if err != nil {
			fail("empty primary key with alias: %v\n%s", err, doc)
			continue
		}
		cases++
		j1, _ := json.Marshal(p)
		p2, _ := pipeline.Parse(bytes.NewReader(j1))
		j2, _ := json.Marshal(p2)
		if !bytes.Equal(j1, j2) {
			if what, ok := knownOpen("C09", "empty-primary-with-alias"); ok {
				if !emptyPrimaryReported {
					fmt.Printf("KNOWN-FINDING: property=C09 %s\n", what)
				}
				emptyPrimaryReported = true
			} else {
				fail("empty primary key with alias: the JSON output is not a fixpoint: %s then %s", j1, j2)
			}
		}
	}
	if knownHits > 0 {
		fmt.Printf("KNOWN-FINDING: property=C09 %s (%d generated documents skipped on the YAML leg)\n", knownWhat, knownHits)
	}
	fmt.Printf("BOUNDED name=c09-fixpoint cases=%d failures=%d\n", cases, failures)
}

func y2check(t *testing.T, i int, p1 *pipeline.Pipeline, j1, y1 []byte, fail func(string, ...any)) {
	p3, err := pipeline.Parse(bytes.NewReader(y1))
	if err != nil && !warning.Is(err) {
		fail("case %d: re-parsing the YAML output fails: %v\n%s", i, err, y1)
		return
	}
	if kinds(p1.Steps) != kinds(p3.Steps) {
		fail("case %d: step kinds change across the YAML round trip: %s vs %s\n%s", i, kinds(p1.Steps), kinds(p3.Steps), y1)
		return
	}
	j3, _ := json.Marshal(p3)
	if !bytes.Equal(j1, j3) {
		fail("case %d: the YAML output carries different data than the JSON output:\n via JSON: %s\n via YAML: %s\n--- yaml ---\n%s", i, j1, j3, y1)
		return
	}
	y3, _ := yaml.Marshal(p3)
	if !bytes.Equal(y1, y3) {
		fail("case %d: YAML is not a fixpoint:\n--- first ---\n%s\n--- second ---\n%s", i, y1, y3)
	}
}
