#!/bin/bash
# Run a bounded stand-in: ./run.sh <package dir> [go test args]
# Bounded checks never count as proof; they print one line
#   BOUNDED name=<n> cases=<k> failures=<f> [replay=<path>]
cd "$(dirname "$0")"
export GOFLAGS=-mod=mod GOPROXY=off GOSUMDB=off GOTOOLCHAIN=local
cp /repo/go.sum go.sum 2>/dev/null
pkg="$1"; shift
out=$(go test -vet=off -count=1 -timeout 20m "./$pkg" "$@" -v 2>&1)
rc=$?
echo "$out" | grep -E "^(BOUNDED|KNOWN-FINDING|--- FAIL|FAIL|ok|panic|WARNING: DATA RACE|\s+.*_test.go)"
exit $rc
