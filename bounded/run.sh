#!/bin/bash
# Run a bounded stand-in: ./run.sh <package dir> [go test args]
# Bounded checks never count as proof; they print one line
#   BOUNDED name=<n> cases=<k> failures=<f> [replay=<path>]
cd "$(dirname "$0")"
export GOFLAGS=-mod=mod GOPROXY=off GOSUMDB=off GOTOOLCHAIN=local
cp /repo/go.sum go.sum 2>/dev/null
pkg="$1"; shift
# VERIF_OVERLAY=<file>: a `go build -overlay` file (used by selftest/automut.sh to try a mutant of
# /repo without writing to /repo); unset in every registered command.
out=$(go test ${VERIF_OVERLAY:+-overlay "$VERIF_OVERLAY"} -vet=off -count=1 -timeout 20m "./$pkg" "$@" -v 2>&1)
rc=$?
echo "$out" | grep -E "^(BOUNDED|KNOWN-FINDING|--- FAIL|FAIL|ok|panic|fatal error|runtime: goroutine stack exceeds|WARNING: DATA RACE|\s+.*_test.go)"
exit $rc
