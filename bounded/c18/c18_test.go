package c18

// Bounded stand-in for the crypto-dependent sentences of C18 (not proof):
// generated keys validate; what one private key signs verifies with its public
// half and with no other generated key; Validate agrees with the allow-list
// over every (real key type) x (every registered JOSE algorithm, none, unknown).

import (
	"context"
	"crypto"
	"crypto/rand"
	"encoding/json"
	"fmt"
	"os"
	"path/filepath"
	"strings"
	"testing"

	pipeline "github.com/buildkite/go-pipeline"
	"github.com/buildkite/go-pipeline/jwkutil"
	"github.com/buildkite/go-pipeline/signature"
	"github.com/lestrrat-go/jwx/v2/jwa"
	"github.com/lestrrat-go/jwx/v2/jwk"
)

func TestBounded(t *testing.T) {
	cases, failures := 0, 0
	fail := func(format string, a ...any) {
		failures++
		t.Errorf(format, a...)
	}
	algs := []jwa.SignatureAlgorithm{jwa.ES512, jwa.PS512, jwa.EdDSA}
	type pair struct {
		alg       jwa.SignatureAlgorithm
		priv, pub jwk.Set
	}
	var pairs []pair
	rounds := 1
	if os.Getenv("VERIF_TIER") == "thorough" {
		rounds = 3
	}
	for r := 0; r < rounds; r++ {
		for _, alg := range algs {
			priv, pub, err := jwkutil.NewKeyPair(fmt.Sprintf("k%d-%s", r, alg), alg)
			cases++
			if err != nil {
				fail("NewKeyPair(%s): %v", alg, err)
				continue
			}
			for _, set := range []jwk.Set{priv, pub} {
				k, _ := set.Key(0)
				cases++
				if err := jwkutil.Validate(k); err != nil {
					fail("generated %s key does not validate: %v", alg, err)
				}
				if k.KeyID() == "" {
					fail("generated %s key has no kid", alg)
				}
			}
			pairs = append(pairs, pair{alg, priv, pub})
		}
	}
	step := &pipeline.CommandStep{Command: "echo hello", Env: map[string]string{"A": "b"}}
	ctx := context.Background()
	for i, p := range pairs {
		k, _ := p.priv.Key(0)
		sig, err := signature.Sign(ctx, k, &signature.CommandStepWithInvariants{CommandStep: *step, RepositoryURL: "repo"})
		cases++
		if err != nil {
			fail("sign with %s: %v", p.alg, err)
			continue
		}
		for j, q := range pairs {
			err := signature.Verify(ctx, sig, q.pub, &signature.CommandStepWithInvariants{CommandStep: *step, RepositoryURL: "repo"})
			cases++
			if i == j && err != nil {
				fail("verify with matching public key (%s) failed: %v", p.alg, err)
			}
			if i != j && err == nil {
				fail("signature by key %d (%s) verified under key %d (%s)", i, p.alg, j, q.alg)
			}
		}
	}
	// Validate over real key objects of every key type x every algorithm
	var keys []jwk.Key
	for _, p := range pairs[:3] {
		k, _ := p.priv.Key(0)
		keys = append(keys, k)
	}
	sym := make([]byte, 64)
	rand.Read(sym)
	oct, err := jwk.FromRaw(sym)
	if err != nil {
		t.Fatal(err)
	}
	keys = append(keys, oct)
	var names []any
	for _, a := range jwa.SignatureAlgorithms() {
		names = append(names, a)
	}
	for _, a := range jwa.KeyEncryptionAlgorithms() {
		names = append(names, a)
	}
	// unknown names, among them spellings of the approved algorithms that differ only in letter case,
	// carry surrounding blanks, or are the approved name of another key type glued to this one's
	names = append(names, "bogus-alg", nil, "ps512", "Ps512", "pS512", "es512", "Es512", "eddsa", "EDDSA", "Eddsa", "edDSA",
		" PS512", "PS512 ", "ES512\n", "EdDSA ", "PS-512", "PS512/ES512", "RSA/PS512", "")
	approved := map[jwa.KeyType]jwa.SignatureAlgorithm{jwa.RSA: jwa.PS512, jwa.EC: jwa.ES512, jwa.OKP: jwa.EdDSA}
	for _, base := range keys {
		for _, n := range names {
			k, err := base.Clone()
			if err != nil {
				t.Fatal(err)
			}
			k.Remove(jwk.AlgorithmKey)
			if n != nil {
				if err := k.Set(jwk.AlgorithmKey, n); err != nil {
					continue // the JOSE library itself refuses this value
				}
			}
			cases++
			want := false
			if sa, ok := n.(jwa.SignatureAlgorithm); ok {
				want = approved[k.KeyType()] == sa && sa != ""
			}
			got := jwkutil.Validate(k) == nil
			if got != want {
				fail("Validate(kty=%s, alg=%v) accepted=%v, want %v", k.KeyType(), n, got, want)
			}
		}
	}
	// LoadKey: by id, or the only key of a singleton set; whatever it returns has passed Validate
	dir := t.TempDir()
	writeSet := func(name string, ks ...jwk.Key) string {
		set := jwk.NewSet()
		for _, k := range ks {
			set.AddKey(k)
		}
		b, err := json.Marshal(set)
		if err != nil {
			t.Fatal(err)
		}
		p := filepath.Join(dir, name)
		if err := os.WriteFile(p, b, 0o600); err != nil {
			t.Fatal(err)
		}
		return p
	}
	var variants []jwk.Key
	for _, base := range keys {
		for _, n := range []any{nil, jwa.PS512, jwa.ES512, jwa.EdDSA, jwa.RS256, jwa.HS512} {
			k, _ := base.Clone()
			k.Remove(jwk.AlgorithmKey)
			if n != nil {
				if err := k.Set(jwk.AlgorithmKey, n); err != nil {
					continue
				}
			}
			k.Set(jwk.KeyIDKey, fmt.Sprintf("id-%d", len(variants)))
			variants = append(variants, k)
		}
	}
	valid0 := variants[0]
	for _, v := range variants {
		if jwkutil.Validate(v) == nil {
			valid0 = v
			break
		}
	}
	for i, k := range variants {
		valid := jwkutil.Validate(k) == nil
		single := writeSet(fmt.Sprintf("single-%d.json", i), k)
		pair := writeSet(fmt.Sprintf("pair-%d.json", i), valid0, k)
		for _, tc := range []struct {
			what, path, id string
			wantOK         bool
		}{
			{"only key, no id", single, "", valid},
			{"only key, by id", single, k.KeyID(), valid},
			{"only key, wrong id", single, "nope", false},
			{"one of two, by id", pair, k.KeyID(), valid},
			{"one of two, no id", pair, "", false},
		} {
			if strings.HasPrefix(tc.what, "one of two") && k.KeyID() == valid0.KeyID() {
				continue // the "pair" would hold the same key twice
			}
			cases++
			got, err := jwkutil.LoadKey(tc.path, tc.id)
			if (err == nil) != tc.wantOK {
				fail("LoadKey(%s: kty=%s alg=%v): err=%v, want success=%v", tc.what, k.KeyType(), k.Algorithm(), err, tc.wantOK)
				continue
			}
			if err == nil {
				if jwkutil.Validate(got) != nil {
					fail("LoadKey(%s) returned a key that fails Validate", tc.what)
				}
				if got.KeyID() != k.KeyID() {
					fail("LoadKey(%s) returned key %q, want %q", tc.what, got.KeyID(), k.KeyID())
				}
			}
		}
	}
	// all small key sets x requested ids: ordered sets of 0..3 distinct keys (three valid, one with a
	// refused algorithm), each with kid absent, empty or one of a/b/c (non-empty kids distinct
	// within a set), loaded with id "", a, b, c or an id no key has. Reference: no id => the set
	// must hold exactly one key; an id => the key carrying it; the chosen key must pass Validate.
	var pool []jwk.Key
	for _, p := range pairs[:3] {
		k, _ := p.pub.Key(0)
		pool = append(pool, k)
	}
	bad, _ := keys[0].Clone()
	bad.Set(jwk.AlgorithmKey, jwa.RS256)
	pool = append(pool, bad)
	kids := []string{"<absent>", "", "a", "b", "c"}
	type member struct {
		mat int
		kid string
	}
	var sets [][]member
	var build func(cur []member)
	build = func(cur []member) {
		sets = append(sets, append([]member(nil), cur...))
		if len(cur) == 3 {
			return
		}
	next:
		for m := range pool {
			for _, c := range cur {
				if c.mat == m {
					continue next
				}
			}
			for _, kid := range kids {
				dup := false
				for _, c := range cur {
					if kid == c.kid && kid != "<absent>" && kid != "" {
						dup = true
					}
				}
				if !dup {
					build(append(cur, member{m, kid}))
				}
			}
		}
	}
	build(nil)
	setCases := 0
	for _, ms := range sets {
		var ks []jwk.Key
		for _, m := range ms {
			k, _ := pool[m.mat].Clone()
			k.Remove(jwk.KeyIDKey)
			if m.kid != "<absent>" {
				k.Set(jwk.KeyIDKey, m.kid)
			}
			ks = append(ks, k)
		}
		path := writeSet("enum.json", ks...)
		for _, id := range []string{"", "a", "b", "c", "zz"} {
			cases++
			setCases++
			want := -1
			if id == "" {
				if len(ms) == 1 {
					want = 0
				}
			} else {
				for i, m := range ms {
					if m.kid == id {
						want = i
						break
					}
				}
			}
			if want >= 0 && ms[want].mat == 3 {
				want = -1 // the chosen key has a refused algorithm
			}
			got, err := jwkutil.LoadKey(path, id)
			if want < 0 {
				if err == nil {
					fail("LoadKey(set %v, id %q) returned a key (kid %q), want an error", ms, id, got.KeyID())
				}
				continue
			}
			if err != nil {
				fail("LoadKey(set %v, id %q): %v, want key %d", ms, id, err, want)
				continue
			}
			tpGot, _ := got.Thumbprint(crypto.SHA256)
			tpWant, _ := ks[want].Thumbprint(crypto.SHA256)
			if string(tpGot) != string(tpWant) {
				fail("LoadKey(set %v, id %q) returned a different key than member %d", ms, id, want)
			}
		}
	}
	fmt.Printf("BOUNDED name=c18-keys cases=%d key_set_cases=%d failures=%d\n", cases, setCases, failures)
}
