package c15

// Bounded fallback for C15 (not proof): the step-kind rule table, enumerated
// over every subset of the ten kind-deciding keys, every `type` value of
// interest and an extra unknown key, through Parse on the real code.

import (
	"errors"
	"fmt"
	"strings"
	"testing"

	pipeline "github.com/buildkite/go-pipeline"
	"github.com/buildkite/go-pipeline/warning"
)

var keys = []string{"command", "commands", "plugins", "wait", "waiter", "block", "input", "manual", "trigger", "group"}
var values = map[string]string{"command": "c", "commands": "[a, b]", "plugins": "[p#v1]", "wait": "~", "waiter": "~", "block": "b", "input": "i", "manual": "m", "trigger": "t", "group": "g"}

// type values: the documented ones, near misses, and every kind-deciding KEY name used as a type (a key name is not a type)
var types = []string{"", "command", "script", "wait", "waiter", "block", "input", "manual", "trigger", "group", "mystery", "Command", "7", "commands", "plugins", "steps", " wait", "waits", "[command]", "{wait: x}", "true", "2.5", "[]", "[[wait]]"}

// type values that are not strings (written unquoted): a number, a sequence (unhashable: seed C13k looked the
// value up in a table keyed by any), a mapping, a boolean
var nonString = map[string]bool{"7": true, "[command]": true, "{wait: x}": true, "true": true, "2.5": true, "[]": true, "[[wait]]": true}

func byType(t string) string {
	switch t {
	case "command", "script":
		return "*pipeline.CommandStep"
	case "wait", "waiter":
		return "*pipeline.WaitStep"
	case "block", "input", "manual":
		return "*pipeline.InputStep"
	case "trigger":
		return "*pipeline.TriggerStep"
	case "group":
		return "*pipeline.GroupStep"
	}
	return "*pipeline.UnknownStep"
}

func byKeys(has map[string]bool) string {
	switch {
	case has["command"] || has["commands"] || has["plugins"]:
		return "*pipeline.CommandStep"
	case has["wait"] || has["waiter"]:
		return "*pipeline.WaitStep"
	case has["block"] || has["input"] || has["manual"]:
		return "*pipeline.InputStep"
	case has["trigger"]:
		return "*pipeline.TriggerStep"
	case has["group"]:
		return "*pipeline.GroupStep"
	}
	return "*pipeline.UnknownStep"
}

func TestC15(t *testing.T) {
	cases, failures := 0, 0
	fail := func(f string, a ...any) {
		failures++
		if failures < 12 {
			t.Errorf(f, a...)
		}
	}
	for mask := 0; mask < 1<<len(keys); mask++ {
		for _, ty := range types {
			for variant := 0; variant < 4; variant++ {
				extra, reversed := variant&1 != 0, variant&2 != 0 // key order in the document must not matter
				has := map[string]bool{}
				var sb strings.Builder
				sb.WriteString("steps:\n  - ")
				first := true
				add := func(k, v string) {
					if !first {
						sb.WriteString("    ")
					}
					first = false
					fmt.Fprintf(&sb, "%s: %s\n", k, v)
				}
				if extra {
					add("zzz_unknown", "x")
					add("script", "a type word is not a kind-deciding key")
					add("waits", "x")
				}
				for x := range keys {
					i := x
					if reversed {
						i = len(keys) - 1 - x
					}
					if k := keys[i]; mask&(1<<i) != 0 {
						has[k] = true
						add(k, values[k])
					}
				}
				if nonString[ty] {
					add("type", ty) // a non-string type
				} else if ty != "" {
					add("type", fmt.Sprintf("%q", ty))
				}
				if first {
					continue // no key at all
				}
				p, err := pipeline.Parse(strings.NewReader(sb.String()))
				cases++
				if err != nil && !warning.Is(err) {
					fail("Parse failed: %v\n%s", err, sb.String())
					continue
				}
				if len(p.Steps) != 1 {
					fail("%d steps\n%s", len(p.Steps), sb.String())
					continue
				}
				want := byKeys(has)
				if ty != "" {
					want = byType(ty)
				}
				got := fmt.Sprintf("%T", p.Steps[0])
				if got != want {
					fail("got %s, the rule table says %s\n%s", got, want, sb.String())
					continue
				}
				if want == "*pipeline.UnknownStep" {
					if err == nil {
						fail("unknown step without a warning\n%s", sb.String())
					} else if ty != "" && !errors.Is(err, pipeline.ErrUnknownStepType) {
						fail("unknown type %q: warning does not wrap ErrUnknownStepType: %v", ty, err)
					} else if ty == "" && !errors.Is(err, pipeline.ErrStepTypeInference) {
						fail("no inferable key: warning does not wrap ErrStepTypeInference: %v", err)
					}
				}
			}
		}
	}
	// ill-typed additional keys: the step of the decided kind may fail to decode, in which case the
	// entry becomes an unknown step with a warning - never a step of another family whose key is also present
	for mask := 1; mask < 1<<len(keys); mask++ {
		for _, ty := range []string{"", "command", "wait", "block", "trigger", "group"} {
			for bi, bad := range []string{"env: {A: {B: c}}", "plugins: 42", "matrix: {setup: 7}", "env: [1, 2]"} {
				has := map[string]bool{}
				var sb strings.Builder
				sb.WriteString("steps:\n  - zzz_first: x\n")
				for i, k := range keys {
					if mask&(1<<i) != 0 {
						if k == "plugins" && bi == 1 {
							continue // replaced by the ill-typed plugins value below
						}
						has[k] = true
						fmt.Fprintf(&sb, "    %s: %s\n", k, values[k])
					}
				}
				if bi == 1 {
					has["plugins"] = true
				}
				sb.WriteString("    " + bad + "\n")
				if ty != "" {
					fmt.Fprintf(&sb, "    type: %q\n", ty)
				}
				p, err := pipeline.Parse(strings.NewReader(sb.String()))
				cases++
				if err != nil && !warning.Is(err) {
					fail("Parse failed: %v\n%s", err, sb.String())
					continue
				}
				if len(p.Steps) != 1 {
					fail("%d steps\n%s", len(p.Steps), sb.String())
					continue
				}
				want := byKeys(has)
				if ty != "" {
					want = byType(ty)
				}
				got := fmt.Sprintf("%T", p.Steps[0])
				if got != want && got != "*pipeline.UnknownStep" {
					fail("got %s, the rule table says %s (or an unknown step with a warning)\n%s", got, want, sb.String())
				}
				if got == "*pipeline.UnknownStep" && err == nil {
					fail("unknown step without a warning\n%s", sb.String())
				}
			}
		}
	}
	// a fallback among a group's nested steps: the entry is a group step or (as the library does
	// today, because GroupStep wraps the nested warning in a plain error) an unknown step holding the
	// whole group - never another kind - and the fallback is reported
	for _, doc := range []string{
		"steps:\n  - group: g\n    steps:\n      - mystery: 1\n",
		"steps:\n  - type: group\n    group: g\n    trigger: t\n    steps:\n      - command: c\n      - type: nope\n",
		"steps:\n  - group: g\n    steps:\n      - group: inner\n        steps: [shrug]\n",
	} {
		p, err := pipeline.Parse(strings.NewReader(doc))
		cases++
		if p == nil || len(p.Steps) != 1 {
			fail("nested fallback: %v\n%s", err, doc)
			continue
		}
		if got := fmt.Sprintf("%T", p.Steps[0]); got != "*pipeline.GroupStep" && got != "*pipeline.UnknownStep" {
			fail("nested fallback: got %s, the rule table says a group step (or an unknown step)\n%s", got, doc)
		}
		if !warning.Is(err) {
			fail("nested fallback: no warning (err = %v)\n%s", err, doc)
		}
	}
	// scalar steps
	for s, want := range map[string]string{"wait": "*pipeline.WaitStep", "waiter": "*pipeline.WaitStep", "block": "*pipeline.InputStep", "input": "*pipeline.InputStep", "manual": "*pipeline.InputStep", "command": "*pipeline.UnknownStep", "Wait": "*pipeline.UnknownStep", "trigger": "*pipeline.UnknownStep"} {
		p, err := pipeline.Parse(strings.NewReader("steps:\n  - " + s + "\n"))
		cases++
		if (err != nil && !warning.Is(err)) || len(p.Steps) != 1 || fmt.Sprintf("%T", p.Steps[0]) != want {
			fail("scalar step %q: %v %v", s, err, p)
		}
		if want == "*pipeline.UnknownStep" && !errors.Is(err, pipeline.ErrUnknownStepType) {
			fail("scalar step %q: warning does not wrap ErrUnknownStepType: %v", s, err)
		}
	}
	fmt.Printf("BOUNDED name=c15-table cases=%d failures=%d\n", cases, failures)
}
