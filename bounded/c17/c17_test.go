package c17

// Bounded stand-in for C17 (not proof): the documented expansion rules and
// idempotence of Plugin.FullSource, exhaustively over short sources of the
// documented grammar, and the JSON key produced by json.Marshal(plugin).
// It also validates the axioms assumed about net/url, strings and path for
// that grammar (the deductive part proves the rule table relative to them).

import (
	"encoding/json"
	"fmt"
	"os"
	"strings"
	"testing"

	pipeline "github.com/buildkite/go-pipeline"
)

// reference: the documented rules, written independently of net/url.
func reference(s string) (string, bool) {
	if s == "" {
		return "", true
	}
	if s[0] == '/' || s[0] == '.' || s[0] == '\\' {
		return s, true
	}
	if strings.Contains(s, ":") || strings.Contains(s, "%") || strings.Contains(s, "?") {
		return "", false // schemes, scp-style, percent-encoding, queries: outside this reference
	}
	path, frag := s, ""
	if i := strings.Index(s, "#"); i >= 0 {
		path, frag = s[:i], s[i+1:]
	}
	if strings.Contains(frag, "#") {
		return "", false
	}
	if strings.Contains(s, "#") {
		// a ref, when given, is a git-legal ref: non-empty components, none dot-only
		for _, c := range strings.Split(frag, "/") {
			if c == "" || c == "." || c == ".." {
				return "", false
			}
		}
	}
	path = strings.TrimPrefix(path, "/")
	segs := strings.Split(path, "/")
	for _, sg := range segs {
		if sg == "" || sg == "." || sg == ".." {
			return "", false // empty or dot-only components: outside the documented forms
		}
	}
	last := func(n string) string {
		n += "-buildkite-plugin"
		if frag != "" {
			n += "#" + frag
		}
		return n
	}
	switch len(segs) {
	case 1:
		return "github.com/buildkite-plugins/" + last(segs[0]), true
	case 2:
		return "github.com/" + segs[0] + "/" + last(segs[1]), true
	default:
		return s, true
	}
}

func TestBounded(t *testing.T) {
	alphabet := "aB1.-_/#"
	maxLen := 6
	if os.Getenv("VERIF_TIER") == "thorough" {
		maxLen = 7
	}
	cases, inGrammar, failures := 0, 0, 0
	var rec func(prefix string)
	check := func(s string) {
		cases++
		p := &pipeline.Plugin{Source: s}
		got := p.FullSource()
		if want, ok := reference(s); ok {
			inGrammar++
			if got != want {
				failures++
				if failures < 10 {
					t.Errorf("FullSource(%q) = %q, documented rules give %q", s, got, want)
				}
			}
			// refs containing '/' after canonicalisation move into the path: stay within the documented forms
			if _, ok2 := reference(got); ok2 {
				again := (&pipeline.Plugin{Source: got}).FullSource()
				if again != got {
					failures++
					if failures < 10 {
						t.Errorf("not idempotent: %q -> %q -> %q", s, got, again)
					}
				}
			}
		}
	}
	rec = func(prefix string) {
		check(prefix)
		if len(prefix) == maxLen {
			return
		}
		for _, c := range alphabet {
			rec(prefix + string(c))
		}
	}
	rec("")
	// sources composed of the words the transform itself writes (suffix, default host and
	// organisation, in several letter cases) and of syntax characters: values that look like
	// the output of the transform, up to 5 words (quick) / 6 (thorough)
	vocab := []string{"docker", "x", "-buildkite-plugin", "buildkite-plugin", "-BUILDKITE-PLUGIN", "-buildkite-plugins",
		"buildkite-plugins", "github.com", "GitHub.com", "/", "#", "-", ".", "v1", ".git"}
	maxWords := 5
	if os.Getenv("VERIF_TIER") == "thorough" {
		maxWords = 6
	}
	var comp func(prefix string, n int)
	comp = func(prefix string, n int) {
		if n > 0 {
			check(prefix)
		}
		if n == maxWords {
			return
		}
		for _, w := range vocab {
			comp(prefix+w, n+1)
		}
	}
	comp("", 0)
	// documented host / scheme / scp / Windows forms are left as written
	for _, s := range []string{
		"https://github.com/buildkite-plugins/docker-buildkite-plugin#v1", "ssh://git@github.com/org/repo.git#main",
		"git@github.com:org/repo.git#v1.0.0", "github.com/org/repo-buildkite-plugin#v2", "example.com/a/b/c",
		"C:\\plugins\\thing", "\\\\server\\share\\plugin", "file:///plugins/thing", "./local#x", "/abs/path", "../up",
		"github.com/buildkite-plugins/docker-buildkite-plugin", "bitbucket.org/team/thing#feature/x",
	} {
		cases++
		got := (&pipeline.Plugin{Source: s}).FullSource()
		if got != s {
			failures++
			t.Errorf("FullSource(%q) = %q, want it left as written", s, got)
		}
	}
	// anything with a colon in its first path segment - a scheme of any letter case, an
	// scp-style host (with or without user, upper-case or numeric host), a drive - is left as written
	hosts := []string{"github.com", "GitHub.com", "10.0.0.1", "Git.example.com", "HOST", "h", "my-host.internal", "1host"}
	schemes := []string{"https", "HTTPS", "Https", "ssh", "SSH", "file", "git+ssh", "x-y.z", "s3", "S3"}
	paths := []string{"thing", "thing.git", "org/thing", "org/thing.git#v1.2.0", "a/b/c", "thing#main", ""}
	for _, pth := range paths {
		for _, h := range hosts {
			for _, src := range []string{h + ":" + pth, "git@" + h + ":" + pth, "user.name@" + h + ":" + pth} {
				if strings.HasSuffix(src, ":") {
					continue
				}
				cases++
				if got := (&pipeline.Plugin{Source: src}).FullSource(); got != src {
					failures++
					t.Errorf("FullSource(%q) = %q, want it left as written (host:path form)", src, got)
				}
			}
		}
		for _, sc := range schemes {
			for _, src := range []string{sc + "://example.com/" + pth, sc + ":" + pth, sc + ":///" + pth} {
				if strings.HasSuffix(src, ":") {
					continue
				}
				cases++
				if got := (&pipeline.Plugin{Source: src}).FullSource(); got != src {
					failures++
					t.Errorf("FullSource(%q) = %q, want it left as written (scheme form)", src, got)
				}
			}
		}
		for _, d := range []string{"C:", "c:", "Z:"} {
			for _, sep := range []string{"\\", "/"} {
				src := d + sep + strings.ReplaceAll(pth, "/", sep)
				cases++
				if got := (&pipeline.Plugin{Source: src}).FullSource(); got != src {
					failures++
					t.Errorf("FullSource(%q) = %q, want it left as written (drive form)", src, got)
				}
			}
		}
	}
	// json.Marshal(plugin) is a single-entry object keyed by the canonical source
	for _, s := range []string{"docker#v1", "org/thing", "a/b/c", "./x", "thing"} {
		for _, cfg := range []any{nil, map[string]any{}, map[string]any{"k": 1}, []any{}} {
			cases++
			p := &pipeline.Plugin{Source: s, Config: cfg}
			b, err := json.Marshal(p)
			if err != nil {
				failures++
				t.Errorf("marshal %q: %v", s, err)
				continue
			}
			var m map[string]any
			if err := json.Unmarshal(b, &m); err != nil || len(m) != 1 {
				failures++
				t.Errorf("marshal %q gave %s", s, b)
				continue
			}
			if _, ok := m[p.FullSource()]; !ok {
				failures++
				t.Errorf("marshal %q: key is not the canonical source: %s", s, b)
			}
		}
	}
	fmt.Printf("BOUNDED name=c17-sources cases=%d in_grammar=%d failures=%d\n", cases, inGrammar, failures)
}
