package c16

// Bounded stand-in for C16 (not proof): the reflective unmarshaler over a
// family of struct types and all key subsets of their documents.
//   - partition: every input key is consumed by exactly one place, computed by
//     an independent reference (primary key, else first present alias, else the
//     inline catch-all); absent keys leave the field's previous value, null
//     zeroes it;
//   - differential: for alias-free targets and well-typed documents the result
//     equals yaml.v3's own decoding of the same document (JSON-normalised, so
//     ordered maps stand in for plain maps).

import (
	"encoding/json"
	"fmt"
	"math/rand"
	"os"
	"reflect"
	"sort"
	"strings"
	"testing"

	"github.com/buildkite/go-pipeline/ordered"
	"gopkg.in/yaml.v3"
)

type Scalars struct {
	A       string  `yaml:"a"`
	N       int     `yaml:"n"`
	F       float64 `yaml:"f"`
	B       bool    `yaml:"b"`
	Plain   string
	Skipped string `yaml:"-"`
	O       string `yaml:"o,omitempty"`
	Optless string `yaml:",omitempty"` // options without a name: the key is the lower-cased field name
	Empty   string `yaml:""`
	hidden  string
}

type Containers struct {
	L    []string          `yaml:"l"`
	LA   []any             `yaml:"la"`
	M    map[string]string `yaml:"m"`
	MA   map[string]any    `yaml:"ma"`
	Any  any               `yaml:"any"`
	Rest map[string]any    `yaml:",inline"`
}

type Nested struct {
	Name   string         `yaml:"name"`
	Inner  Scalars        `yaml:"inner"`
	PInner *Scalars       `yaml:"pinner"`
	Deep   *Containers    `yaml:"deep"`
	Rest   map[string]any `yaml:",inline"`
}

type Aliased struct {
	X    string         `yaml:"x" aliases:"ex,eks"`
	Y    int            `yaml:"y" aliases:"why"`
	Z    string         `yaml:"z"`
	W    []string       `yaml:"w" aliases:"double-u,,dw2"` // an empty entry in the list is not an alias and does not end the list
	Rest map[string]any `yaml:",inline"`
}

type NoInline struct {
	X string `yaml:"x" aliases:"ex"`
	Z string `yaml:"z"`
}

type InlineStruct struct {
	Top string  `yaml:"top"`
	Sub Scalars `yaml:",inline"`
}

// embedded structs tagged inline, of an exported and of an unexported type: their exported
// fields are promoted and take their keys from the enclosing mapping (yaml.v3 does the same)
type Base struct {
	Name  string `yaml:"name"`
	Count int    `yaml:"count"`
}

type base struct {
	Name  string `yaml:"name"`
	Count int    `yaml:"count"`
}

type EmbeddedExported struct {
	Base  `yaml:",inline"`
	Label string `yaml:"label"`
}

type EmbeddedUnexported struct {
	base  `yaml:",inline"`
	Label string `yaml:"label"`
}

// an embedded struct without a tag is an ordinary field keyed by its lower-cased type name; its
// fields are not promoted into the enclosing mapping (yaml.v3 does the same)
type EmbeddedUntagged struct {
	Base
	Label string `yaml:"label"`
}

// a key that is one field's own key and another field's alias, and an alias two fields list: the
// statement gives such a key to one place (the field whose tag names it, else the first field that
// lists it); the library also fills the other claimant (open finding key-claimed-twice, witnessed in
// bounded/findings), so the other claimant's value is not compared here - every other clause is
// (seed C16k: the claimed keys counted with multiplicity, a leftover key lost)
type Shared struct {
	Name  string         `yaml:"name"`
	Label string         `yaml:"label" aliases:"name,title"`
	Desc  string         `yaml:"desc" aliases:"title"`
	Rest  map[string]any `yaml:",inline"`
}

type family struct {
	name      string
	typ       reflect.Type
	universe  map[string]any // key -> well-typed value
	aliasFree bool
}

var scalarUniverse = map[string]any{"optless": "ol", "empty": "em", "a": "str", "n": 7, "f": 2.5, "b": true, "plain": "p", "o": "oo", "Skipped": "cap", "skipped": "s", "-": "dash", "hidden": "h", "": "empty", "extra": "e"}

var families = []family{
	{"Scalars", reflect.TypeOf(Scalars{}), scalarUniverse, true},
	{"Containers", reflect.TypeOf(Containers{}), map[string]any{"l": []any{"x", "y"}, "la": []any{"x", 1, true}, "m": map[string]any{"k": "v"}, "ma": map[string]any{"k": 1, "deep": map[string]any{"z": "z"}},
		"any": map[string]any{"q": []any{1}}, "extra": map[string]any{"e": "e"}, "": "empty", "rest": "r"}, true},
	{"Nested", reflect.TypeOf(Nested{}), map[string]any{"name": "n", "inner": map[string]any{"a": "ia", "n": 3, "zzz": "ignored"}, "pinner": map[string]any{"b": true, "plain": "pp"},
		"deep": map[string]any{"l": []any{"dl"}, "unk": 1}, "extra": 1, "": "empty"}, true},
	{"Aliased", reflect.TypeOf(Aliased{}), map[string]any{"x": "x", "ex": "ex", "eks": "eks", "y": 1, "why": 2, "z": "z", "w": []any{"w"}, "double-u": []any{"dw"}, "dw2": []any{"dw2"}, "": "empty", "extra": "e"}, false},
	{"NoInline", reflect.TypeOf(NoInline{}), map[string]any{"x": "x", "ex": "ex", "z": "z", "": "empty", "extra": "e"}, false},
	{"EmbeddedExported", reflect.TypeOf(EmbeddedExported{}), map[string]any{"name": "llama", "count": 3, "label": "drama", "extra": "e", "base": "b"}, true},
	{"EmbeddedUnexported", reflect.TypeOf(EmbeddedUnexported{}), map[string]any{"name": "llama", "count": 3, "label": "drama", "extra": "e", "base": "b"}, true},
	{"EmbeddedUntagged", reflect.TypeOf(EmbeddedUntagged{}), map[string]any{"base": map[string]any{"name": "inner", "count": 2}, "name": "not a field here", "count": 5, "label": "drama", "extra": "e"}, true},
	{"Shared", reflect.TypeOf(Shared{}), map[string]any{"name": "n", "label": "l", "title": "t", "desc": "d", "extra": "e", "more": 1, "": "empty"}, false},
	{"InlineStruct", reflect.TypeOf(InlineStruct{}), map[string]any{"top": "t", "a": "str", "n": 7, "plain": "p", "extra": "e", "": "empty"}, false},
}

// ---- reference: which key each field consumes ----

type fieldPlan struct {
	index   []int
	primary string
	aliases []string
}

func plan(t reflect.Type) (fields []fieldPlan, inline []int) {
	for _, f := range reflect.VisibleFields(t) {
		if len(f.Index) == 2 {
			// promoted from an embedded struct tagged inline: an ordinary field of the enclosing mapping
			if parent := t.Field(f.Index[0]); !(parent.Anonymous && parent.Tag.Get("yaml") == ",inline") {
				continue
			}
		}
		if !f.IsExported() || len(f.Index) > 2 {
			continue
		}
		if f.Anonymous && f.Type.Kind() == reflect.Struct && f.Tag.Get("yaml") == ",inline" {
			continue // an inlined embedded struct: reached through its promoted fields
		}
		tag := f.Tag.Get("yaml")
		if tag == "-" {
			continue
		}
		if tag == ",inline" {
			inline = f.Index
			continue
		}
		key := strings.Split(tag, ",")[0]
		if key == "" {
			key = strings.ToLower(f.Name)
		}
		var al []string
		if a, ok := f.Tag.Lookup("aliases"); ok && a != "" {
			for _, x := range strings.Split(a, ",") {
				if x != "" {
					al = append(al, x)
				}
			}
		}
		fields = append(fields, fieldPlan{f.Index, key, al})
	}
	return
}

// consume returns, for a document key set, field index -> consumed key, and the leftover keys.
func consume(t reflect.Type, doc map[string]any) (map[string]string, []string) {
	fields, _ := plan(t)
	used := map[string]bool{}
	by := map[string]string{}
	for _, f := range fields {
		if _, ok := doc[f.primary]; ok {
			by[fmt.Sprint(f.index)] = f.primary
			used[f.primary] = true
			continue
		}
		for _, a := range f.aliases {
			if _, ok := doc[a]; ok {
				by[fmt.Sprint(f.index)] = a
				used[a] = true
				break
			}
		}
	}
	var rest []string
	for k := range doc {
		if !used[k] {
			rest = append(rest, k)
		}
	}
	sort.Strings(rest)
	return by, rest
}

// claimedElsewhere: key is consumed by f through an alias although the statement gives it to another
// field (one whose own key it is, or an earlier field that lists it).
func claimedElsewhere(fields []fieldPlan, by map[string]string, f fieldPlan, key string) bool {
	if key == f.primary {
		return false
	}
	for _, g := range fields {
		if fmt.Sprint(g.index) == fmt.Sprint(f.index) {
			return false // f is the first claimant
		}
		if by[fmt.Sprint(g.index)] == key {
			return true
		}
	}
	return false
}

// toOrdered converts a plain document into the ordered form the decoder produces.
func toOrdered(v any, r *rand.Rand) any {
	switch x := v.(type) {
	case map[string]any:
		keys := make([]string, 0, len(x))
		for k := range x {
			keys = append(keys, k)
		}
		sort.Strings(keys)
		r.Shuffle(len(keys), func(i, j int) { keys[i], keys[j] = keys[j], keys[i] })
		// the source map may carry tombstones (a key set and deleted again, a rename onto an existing
		// key): a deleted key is not part of the document
		m := ordered.NewMap[string, any](len(keys))
		for i, k := range keys {
			if r.Intn(3) == 0 {
				ghost := fmt.Sprintf("deleted-%d", i)
				if r.Intn(2) == 0 && len(keys) > 0 {
					ghost = keys[r.Intn(len(keys))] // a key of the document itself, deleted before it is (re)set
				}
				if _, isDoc := x[ghost]; !isDoc || !m.Contains(ghost) {
					m.Set(ghost, "stale value of a deleted key")
					m.Delete(ghost)
				}
			}
			m.Set(k, toOrdered(x[k], r))
			if r.Intn(6) == 0 {
				m.Set("renamed-away", 1)
				m.Replace("renamed-away", k, toOrdered(x[k], r)) // tombstones k's old slot, k moves
			}
		}
		return m
	case []any:
		out := make([]any, len(x))
		for i, e := range x {
			out[i] = toOrdered(e, r)
		}
		return out
	}
	return v
}

func norm(v any) any {
	b, err := json.Marshal(v)
	if err != nil {
		return "marshal error: " + err.Error()
	}
	var out any
	json.Unmarshal(b, &out)
	return out
}

// sentinel fills every settable scalar / container field so that "untouched" is observable.
func sentinel(v reflect.Value) {
	for i := 0; i < v.NumField(); i++ {
		f := v.Field(i)
		if !f.CanSet() {
			continue
		}
		switch f.Kind() {
		case reflect.String:
			f.SetString("SENTINEL")
		case reflect.Int:
			f.SetInt(-99)
		case reflect.Float64:
			f.SetFloat(-9.5)
		case reflect.Bool:
			f.SetBool(true)
		case reflect.Slice:
			if f.Type().Elem().Kind() == reflect.String {
				f.Set(reflect.ValueOf([]string{"SENTINEL"}))
			}
		}
	}
}

func seed() int64 {
	var s int64 = 1
	fmt.Sscan(os.Getenv("VERIF_SEED"), &s)
	return s
}

func TestC16(t *testing.T) {
	cases, failures := 0, 0
	fail := func(f string, a ...any) {
		failures++
		if failures <= 25 {
			t.Errorf(f, a...)
		}
	}
	r := rand.New(rand.NewSource(seed()))
	for _, fam := range families {
		var keys []string
		for k := range fam.universe {
			keys = append(keys, k)
		}
		sort.Strings(keys)
		total := 1 << len(keys)
		step := 1
		if os.Getenv("VERIF_TIER") != "thorough" && total > 1024 {
			step = total / 1024
		}
		for mask := 0; mask < total; mask += step {
			doc := map[string]any{}
			for i, k := range keys {
				if mask&(1<<i) != 0 {
					doc[k] = fam.universe[k]
				}
			}
			// --- partition ---
			dst := reflect.New(fam.typ)
			sentinel(dst.Elem())
			before := reflect.New(fam.typ)
			sentinel(before.Elem())
			src := toOrdered(doc, r)
			if err := ordered.Unmarshal(src, dst.Interface()); err != nil {
				fail("%s %v: %v", fam.name, doc, err)
				continue
			}
			cases++
			by, rest := consume(fam.typ, doc)
			fields, inline := plan(fam.typ)
			for _, f := range fields {
				got := dst.Elem().FieldByIndex(f.index)
				key, consumed := by[fmt.Sprint(f.index)]
				if !consumed {
					if !reflect.DeepEqual(got.Interface(), before.Elem().FieldByIndex(f.index).Interface()) {
						fail("%s %v: field %s changed to %v although none of its keys is present", fam.name, doc, fam.typ.FieldByIndex(f.index).Name, got.Interface())
					}
					continue
				}
				if claimedElsewhere(fields, by, f, key) {
					continue // open finding key-claimed-twice
				}
				want := doc[key]
				if got.Kind() == reflect.Struct || (got.Kind() == reflect.Pointer && got.Type().Elem().Kind() == reflect.Struct) {
					continue // nested structs are families of their own; checked differentially below
				}
				g := got.Interface()
				if sl, ok := g.([]string); ok && len(sl) > 0 && sl[0] == "SENTINEL" {
					g = sl[1:] // sequences append to what is there
				}
				if !reflect.DeepEqual(norm(g), norm(want)) {
					fail("%s %v: field %s = %v, want the value of key %q = %v", fam.name, doc, fam.typ.FieldByIndex(f.index).Name, g, key, want)
				}
			}
			if inline != nil && fam.typ.FieldByIndex(inline).Type.Kind() == reflect.Map {
				got := dst.Elem().FieldByIndex(inline).Interface().(map[string]any)
				var gk []string
				for k := range got {
					gk = append(gk, k)
				}
				sort.Strings(gk)
				if !reflect.DeepEqual(gk, rest) && !(len(gk) == 0 && len(rest) == 0) {
					fail("%s %v: inline field holds keys %q, want exactly the keys no field consumed %q", fam.name, doc, gk, rest)
				}
				for _, k := range rest {
					if !reflect.DeepEqual(norm(got[k]), norm(doc[k])) {
						fail("%s %v: inline[%q] = %v want %v", fam.name, doc, k, got[k], doc[k])
					}
				}
			}
			// --- null zeroes ---
			if len(doc) > 0 && mask%7 == 0 {
				nd := map[string]any{}
				for k := range doc {
					nd[k] = nil
				}
				z := reflect.New(fam.typ)
				sentinel(z.Elem())
				if err := ordered.Unmarshal(toOrdered(nd, r), z.Interface()); err != nil {
					fail("%s nulls %v: %v", fam.name, nd, err)
				} else {
					cases++
					byN, _ := consume(fam.typ, nd)
					for _, f := range fields {
						if _, ok := byN[fmt.Sprint(f.index)]; ok {
							if got := z.Elem().FieldByIndex(f.index); !got.IsZero() {
								fail("%s: null for field %s left %v, want the zero value", fam.name, fam.typ.FieldByIndex(f.index).Name, got.Interface())
							}
						}
					}
				}
			}
			// --- some keys null, the others not: a present key is consumed whether or not its value is
			// null (a null primary key does not yield to an alias; seed C09k), null zeroes, the rest as above ---
			if len(doc) > 1 && mask%3 == 0 {
				md := map[string]any{}
				for k, v := range doc {
					if r.Intn(3) == 0 {
						v = nil
					}
					md[k] = v
				}
				z := reflect.New(fam.typ)
				sentinel(z.Elem())
				if err := ordered.Unmarshal(toOrdered(md, r), z.Interface()); err != nil {
					fail("%s mixed nulls %v: %v", fam.name, md, err)
				} else {
					cases++
					byM, restM := consume(fam.typ, md)
					for _, f := range fields {
						got := z.Elem().FieldByIndex(f.index)
						key, consumed := byM[fmt.Sprint(f.index)]
						if !consumed {
							if !reflect.DeepEqual(got.Interface(), before.Elem().FieldByIndex(f.index).Interface()) {
								fail("%s %v: field %s changed to %v although none of its keys is present", fam.name, md, fam.typ.FieldByIndex(f.index).Name, got.Interface())
							}
							continue
						}
						if claimedElsewhere(fields, byM, f, key) {
							continue
						}
						if md[key] == nil {
							if !got.IsZero() {
								fail("%s %v: field %s = %v, want the zero value (its key %q is null)", fam.name, md, fam.typ.FieldByIndex(f.index).Name, got.Interface(), key)
							}
							continue
						}
						if got.Kind() == reflect.Struct || (got.Kind() == reflect.Pointer && got.Type().Elem().Kind() == reflect.Struct) {
							continue
						}
						g := got.Interface()
						if sl, ok := g.([]string); ok && len(sl) > 0 && sl[0] == "SENTINEL" {
							g = sl[1:]
						}
						if !reflect.DeepEqual(norm(g), norm(md[key])) {
							fail("%s %v: field %s = %v, want the value of key %q = %v", fam.name, md, fam.typ.FieldByIndex(f.index).Name, g, key, md[key])
						}
					}
					if inline != nil && fam.typ.FieldByIndex(inline).Type.Kind() == reflect.Map {
						got := z.Elem().FieldByIndex(inline).Interface().(map[string]any)
						var gk []string
						for k := range got {
							gk = append(gk, k)
						}
						sort.Strings(gk)
						if !reflect.DeepEqual(gk, restM) && !(len(gk) == 0 && len(restM) == 0) {
							fail("%s %v: inline field holds keys %q, want exactly the keys no field consumed %q", fam.name, md, gk, restM)
						}
						for _, k := range restM {
							if !reflect.DeepEqual(norm(got[k]), norm(md[k])) {
								fail("%s %v: inline[%q] = %v want %v", fam.name, md, k, got[k], md[k])
							}
						}
					}
				}
			}
			// --- differential against yaml.v3 ---
			if fam.aliasFree {
				text, err := yaml.Marshal(doc)
				if err != nil {
					t.Fatal(err)
				}
				ref := reflect.New(fam.typ)
				if err := yaml.Unmarshal(text, ref.Interface()); err != nil {
					continue // not a document the reference decoder accepts
				}
				var node yaml.Node
				if err := yaml.Unmarshal(text, &node); err != nil {
					t.Fatal(err)
				}
				got := reflect.New(fam.typ)
				if err := ordered.Unmarshal(&node, got.Interface()); err != nil {
					fail("%s: yaml.v3 decodes %q but Unmarshal fails: %v", fam.name, text, err)
					continue
				}
				cases++
				if !reflect.DeepEqual(norm(got.Interface()), norm(ref.Interface())) {
					fail("%s: document %q\n  ordered.Unmarshal: %v\n  yaml.v3:           %v", fam.name, text, norm(got.Interface()), norm(ref.Interface()))
				}
			}
		}
	}
	fmt.Printf("BOUNDED name=c16-structs cases=%d failures=%d\n", cases, failures)
}
