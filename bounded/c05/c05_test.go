package c05

// Bounded fallback for C05 (not proof; run in the thorough tier and whenever
// the deductive part cannot generate obligations for a function of the cone):
// every history of Set / Replace / Delete up to a length bound over a small key
// set, compared after every step with a list-of-pairs model through every
// observer (Len, IsZero, Get, Contains, Range, ToMap, Equal against a map built
// afresh from the model and against differently-built twins, JSON marshalling).

import (
	"encoding/json"
	"fmt"
	"math/rand"
	"os"
	"reflect"
	"strings"
	"testing"

	"github.com/buildkite/go-pipeline/ordered"
	"gopkg.in/yaml.v3"
)

type pair struct {
	k string
	v int
}

type model []pair

func (m model) find(k string) int {
	for i, p := range m {
		if p.k == k {
			return i
		}
	}
	return -1
}

func (m model) set(k string, v int) model {
	if i := m.find(k); i >= 0 {
		out := append(model(nil), m...)
		out[i].v = v
		return out
	}
	return append(append(model(nil), m...), pair{k, v})
}

func (m model) del(k string) model {
	i := m.find(k)
	if i < 0 {
		return m
	}
	out := append(model(nil), m[:i]...)
	return append(out, m[i+1:]...)
}

// replace: old stays in its spot under the new key; if old is absent the pair
// goes to the end; an existing other entry with the new key disappears.
func (m model) replace(old, nw string, v int) model {
	out := append(model(nil), m...)
	i := out.find(old)
	if old != nw {
		if j := out.find(nw); j >= 0 {
			out = append(out[:j:j], out[j+1:]...)
			if i > j {
				i--
			}
			if i == j {
				i = -1
			}
			i = out.find(old)
		}
	}
	if i < 0 {
		return append(out, pair{nw, v})
	}
	out[i] = pair{nw, v}
	return out
}

type op struct {
	kind int // 0 set, 1 delete, 2 replace
	a, b string
	v    int
}

var keys = []string{"x", "y", "z"}

func allOps() []op {
	var out []op
	for _, k := range keys {
		out = append(out, op{kind: 0, a: k}, op{kind: 1, a: k})
		for _, k2 := range keys {
			out = append(out, op{kind: 2, a: k, b: k2})
		}
	}
	return out
}

func build(m model) *ordered.Map[string, int] {
	o := ordered.NewMap[string, int](0)
	for _, p := range m {
		o.Set(p.k, p.v)
	}
	return o
}

func observe(t *testing.T, hist string, o *ordered.Map[string, int], m model) string {
	if o.Len() != len(m) {
		return fmt.Sprintf("%s: Len() = %d, model has %d", hist, o.Len(), len(m))
	}
	if o.IsZero() != (len(m) == 0) {
		return fmt.Sprintf("%s: IsZero() = %v with %d items", hist, o.IsZero(), len(m))
	}
	for _, k := range keys {
		v, ok := o.Get(k)
		i := m.find(k)
		if ok != (i >= 0) || (ok && v != m[i].v) || o.Contains(k) != (i >= 0) {
			return fmt.Sprintf("%s: Get/Contains(%q) = %v,%v; model %v", hist, k, v, ok, m)
		}
	}
	var got model
	o.Range(func(k string, v int) error { got = append(got, pair{k, v}); return nil })
	if len(got) != len(m) || (len(m) > 0 && !reflect.DeepEqual(got, m)) {
		return fmt.Sprintf("%s: Range yields %v, model %v", hist, got, m)
	}
	tm := o.ToMap()
	if len(tm) != len(m) {
		return fmt.Sprintf("%s: ToMap has %d entries, model %d", hist, len(tm), len(m))
	}
	for _, p := range m {
		if tm[p.k] != p.v {
			return fmt.Sprintf("%s: ToMap[%q] = %d, model %d", hist, p.k, tm[p.k], p.v)
		}
	}
	fresh := build(m)
	if !ordered.Equal(o, fresh) || !ordered.Equal(fresh, o) || !ordered.Equal(o, o) {
		return fmt.Sprintf("%s: Equal with a map built afresh from %v is false", hist, m)
	}
	j1, err1 := json.Marshal(o)
	j2, err2 := json.Marshal(fresh)
	if err1 != nil || err2 != nil || string(j1) != string(j2) {
		return fmt.Sprintf("%s: JSON %s differs from the fresh map's %s", hist, j1, j2)
	}
	return ""
}

func TestC05(t *testing.T) {
	depth := 5
	if os.Getenv("VERIF_TIER") != "thorough" {
		depth = 4
	}
	ops := allOps()
	cases, failures := 0, 0
	type state struct {
		hist []op
	}
	var rec func(hist []op)
	// replay a history on a new map and on the model, checking after every step
	run := func(hist []op) string {
		o := ordered.NewMap[string, int](0)
		var m model
		desc := ""
		for step, p := range hist {
			v := step + 1
			switch p.kind {
			case 0:
				o.Set(p.a, v)
				m = m.set(p.a, v)
				desc += fmt.Sprintf("Set(%s,%d);", p.a, v)
			case 1:
				o.Delete(p.a)
				m = m.del(p.a)
				desc += fmt.Sprintf("Delete(%s);", p.a)
			case 2:
				o.Replace(p.a, p.b, v)
				m = m.replace(p.a, p.b, v)
				desc += fmt.Sprintf("Replace(%s,%s,%d);", p.a, p.b, v)
			}
		}
		return observe(t, desc, o, m)
	}
	// unequal maps must be reported unequal: compare every pair of final states of short histories
	var finals []struct {
		o *ordered.Map[string, int]
		m model
		d string
	}
	rec = func(hist []op) {
		if failures > 10 {
			return
		}
		if len(hist) > 0 {
			cases++
			func() {
				defer func() {
					if r := recover(); r != nil {
						failures++
						t.Errorf("history %v panicked: %v", hist, r)
					}
				}()
				if msg := run(hist); msg != "" {
					failures++
					t.Error(msg)
				}
			}()
		}
		if len(hist) == depth {
			return
		}
		for _, p := range ops {
			rec(append(hist[:len(hist):len(hist)], p))
		}
	}
	rec(nil)
	// cross comparison of differently built maps (tombstone layouts differ)
	var collect func(hist []op, d int)
	collect = func(hist []op, d int) {
		if len(hist) > 0 {
			o := ordered.NewMap[string, int](0)
			var m model
			for _, p := range hist {
				switch p.kind {
				case 0:
					o.Set(p.a, 1)
					m = m.set(p.a, 1)
				case 1:
					o.Delete(p.a)
					m = m.del(p.a)
				case 2:
					o.Replace(p.a, p.b, 1)
					m = m.replace(p.a, p.b, 1)
				}
			}
			finals = append(finals, struct {
				o *ordered.Map[string, int]
				m model
				d string
			}{o, m, fmt.Sprint(hist)})
		}
		if len(hist) == d {
			return
		}
		for _, p := range ops {
			collect(append(hist[:len(hist):len(hist)], p), d)
		}
	}
	collect(nil, 3)
	for i := range finals {
		for j := range finals {
			cases++
			want := reflect.DeepEqual(finals[i].m, finals[j].m) || (len(finals[i].m) == 0 && len(finals[j].m) == 0)
			var got bool
			func() {
				defer func() {
					if r := recover(); r != nil {
						failures++
						t.Errorf("Equal panicked on %s vs %s: %v", finals[i].d, finals[j].d, r)
					}
				}()
				got = ordered.Equal(finals[i].o, finals[j].o)
			}()
			if got != want {
				failures++
				if failures < 10 {
					t.Errorf("Equal(%s, %s) = %v; contents %v vs %v", finals[i].d, finals[j].d, got, finals[i].m, finals[j].m)
				}
			}
		}
		if failures > 10 {
			break
		}
	}
	// operations issued from inside an iteration callback: the final state is the model's, and every
	// item that no such operation touched is visited exactly once, in order (what the iteration does
	// with the touched ones is left open)
	{
		r := rand.New(rand.NewSource(7))
		alpha := []string{"a", "b", "c", "d", "e", "f", "g", "h"}
		rounds := 20000
		if os.Getenv("VERIF_TIER") == "thorough" {
			rounds = 300000
		}
		for n := 0; n < rounds && failures < 5; n++ {
			o := ordered.NewMap[string, int](0)
			var m model
			for i, k := range alpha[:3+r.Intn(6)] {
				o.Set(k, i)
				m = m.set(k, i)
			}
			for d := r.Intn(5); d > 0; d-- { // tombstones, below or across the compaction threshold
				k := alpha[r.Intn(len(alpha))]
				o.Delete(k)
				m = m.del(k)
			}
			start := append(model(nil), m...)
			touched := map[string]bool{}
			at, kind := r.Intn(3), r.Intn(3)
			a, b := alpha[r.Intn(len(alpha))], alpha[r.Intn(len(alpha))]
			var visits []string
			step := 0
			desc := fmt.Sprintf("start %v; at visit %d: ", start, at)
			func() {
				defer func() {
					if p := recover(); p != nil {
						failures++
						t.Errorf("%spanic %v", desc, p)
					}
				}()
				o.Range(func(k string, v int) error {
					visits = append(visits, k)
					if step == at {
						switch kind {
						case 0:
							o.Replace(a, b, 100)
							m = m.replace(a, b, 100)
							desc += fmt.Sprintf("Replace(%s,%s)", a, b)
						case 1:
							o.Delete(a)
							m = m.del(a)
							desc += fmt.Sprintf("Delete(%s)", a)
						default:
							o.Set(a, 100)
							m = m.set(a, 100)
							desc += fmt.Sprintf("Set(%s)", a)
						}
						touched[a], touched[b] = true, true
					}
					step++
					return nil
				})
			}()
			cases++
			if msg := observe(t, desc, o, m); msg != "" {
				failures++
				t.Error(msg)
				continue
			}
			var want, got []string
			for _, p := range start {
				if !touched[p.k] {
					want = append(want, p.k)
				}
			}
			for _, k := range visits {
				if !touched[k] {
					got = append(got, k)
				}
			}
			if len(start) > at && fmt.Sprint(got) != fmt.Sprint(want) {
				failures++
				t.Errorf("%s: the iteration visited the untouched items %v, want each once in order: %v", desc, got, want)
			}
		}
	}
	// observers of a nil map (conversion included) do not panic and see an empty map
	func() {
		defer func() {
			if p := recover(); p != nil {
				failures++
				t.Errorf("an observer of a nil map panicked: %v", p)
			}
		}()
		var nilMap *ordered.Map[string, any]
		cases++
		if got, ok := ordered.ToMapRecursive(nilMap).(map[string]any); !ok || len(got) != 0 || nilMap.Len() != 0 || len(nilMap.ToMap()) != 0 || !ordered.Equal(nilMap, nilMap) {
			failures++
			t.Errorf("a nil map does not look empty to its observers")
		}
		outer := ordered.NewMap[string, any](0)
		outer.Set("inner", nilMap)
		if m, ok := ordered.ToMapRecursive(outer).(map[string]any); !ok || len(m) != 1 {
			failures++
			t.Errorf("ToMapRecursive of a map holding a nil map: %v", m)
		}
	}()
	// the encodings against the model itself (not against another ordered map), over keys that
	// look like other YAML / JSON types or like syntax: JSON text exactly, YAML at node level
	// (every key a string scalar with the key's text, in order)
	tricky := []string{"plain", "", "<<", "0x10", "1.50", "1e3", "1_000", "+1", "True", "yes", "null", "~", "a b", "k: v", "- x", "#c", "é", "\"q\"", "{", "[", "*a", "&a", "!t", "|", ">", "%", "@", "`"}
	for rot := 0; rot < len(tricky); rot++ {
		o := ordered.NewMap[string, int](0)
		var m model
		for i := range tricky {
			k := tricky[(i+rot)%len(tricky)]
			o.Set(k, i)
			m = m.set(k, i)
		}
		dk := tricky[(rot*7)%len(tricky)]
		o.Delete(dk)
		m = m.del(dk)
		cases++
		var want strings.Builder
		want.WriteString("{")
		for i, p := range m {
			if i > 0 {
				want.WriteString(",")
			}
			kb, _ := json.Marshal(p.k)
			fmt.Fprintf(&want, "%s:%d", kb, p.v)
		}
		want.WriteString("}")
		if jb, err := json.Marshal(o); err != nil || string(jb) != want.String() {
			failures++
			t.Errorf("JSON encoding %s (err %v), the model gives %s", jb, err, want.String())
		}
		yb, err := yaml.Marshal(o)
		if err != nil {
			failures++
			t.Errorf("YAML encoding: %v", err)
			continue
		}
		var doc yaml.Node
		if err := yaml.Unmarshal(yb, &doc); err != nil || len(doc.Content) != 1 || doc.Content[0].Kind != yaml.MappingNode {
			failures++
			t.Errorf("YAML output is not one mapping: %v\n%s", err, yb)
			continue
		}
		c := doc.Content[0].Content
		if len(c) != 2*len(m) {
			failures++
			t.Errorf("YAML output has %d key/value nodes, the model %d pairs\n%s", len(c), len(m), yb)
			continue
		}
		for i, p := range m {
			k, v := c[2*i], c[2*i+1]
			if k.Kind != yaml.ScalarNode || k.ShortTag() != "!!str" || k.Value != p.k || v.Value != fmt.Sprint(p.v) {
				failures++
				t.Errorf("YAML pair %d is %s %q: %q, the model has string key %q: %d\n%s", i, k.ShortTag(), k.Value, v.Value, p.k, p.v, yb)
				break
			}
		}
	}
	fmt.Printf("BOUNDED name=c05-histories cases=%d failures=%d\n", cases, failures)
}
