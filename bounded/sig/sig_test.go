package sig

// Bounded stand-ins for the cryptographic / byte-level parts of C01, C06 and
// C14 (not proof): they validate the assumptions the deductive part makes about
// jws (unforgeability on the sampled cases) and JSON+JCS (determinism and
// injectivity of the canonical payload).

import (
	"context"
	"crypto/ecdsa"
	"crypto/elliptic"
	"crypto/rand"
	"encoding/json"
	"fmt"
	"os"
	"reflect"
	"sort"
	"strings"
	"testing"

	pipeline "github.com/buildkite/go-pipeline"
	"github.com/buildkite/go-pipeline/jwkutil"
	"github.com/buildkite/go-pipeline/signature"
	"github.com/lestrrat-go/jwx/v2/jwa"
	"github.com/lestrrat-go/jwx/v2/jwk"
)

type keyPair struct {
	name     string
	signer   signature.Key
	verifier any
	otherVer any
}

type es256Signer struct{ *ecdsa.PrivateKey }

func (es256Signer) Algorithm() jwa.KeyAlgorithm { return jwa.ES256 }

func keyPairs(t *testing.T) []keyPair {
	var out []keyPair
	for _, alg := range []jwa.SignatureAlgorithm{jwa.EdDSA, jwa.ES512, jwa.PS512} {
		priv, pub, err := jwkutil.NewKeyPair("kid-"+alg.String(), alg)
		if err != nil {
			t.Fatal(err)
		}
		_, pub2, err := jwkutil.NewKeyPair("kid-"+alg.String(), alg)
		if err != nil {
			t.Fatal(err)
		}
		k, _ := priv.Key(0)
		out = append(out, keyPair{alg.String(), k, pub, pub2})
	}
	p1, _ := ecdsa.GenerateKey(elliptic.P256(), rand.Reader)
	p2, _ := ecdsa.GenerateKey(elliptic.P256(), rand.Reader)
	out = append(out, keyPair{"ES256-signer", es256Signer{p1}, es256Signer{p1}, es256Signer{p2}})
	return out
}

func baseStep() *pipeline.CommandStep {
	return &pipeline.CommandStep{
		Command: "echo hello\nmake test",
		Env:     map[string]string{"A": "1", "SHADOW": "step", "BLANKED": ""},
		Plugins: pipeline.Plugins{
			{Source: "docker#v1", Config: map[string]any{"image": "alpine", "n": 1}},
			{Source: "org/cache#v2", Config: nil},
		},
		Matrix: &pipeline.Matrix{
			Setup:       pipeline.MatrixSetup{"os": {"linux", "mac"}, "arch": {"amd64"}},
			Adjustments: pipeline.MatrixAdjustments{{With: pipeline.MatrixAdjustmentWith{"os": "win", "arch": "arm"}, Skip: true}},
		},
	}
}

// baseSteps: the rich step, a step with nothing but a command, and a step with an empty
// command, env names that look like signed-field names, a local plugin with a nested
// non-string config and a single anonymous matrix dimension.
func baseSteps() []func() *pipeline.CommandStep {
	return []func() *pipeline.CommandStep{
		baseStep,
		func() *pipeline.CommandStep { return &pipeline.CommandStep{Command: "make"} },
		func() *pipeline.CommandStep {
			return &pipeline.CommandStep{
				Command: "",
				Env:     map[string]string{"env::P": "x", "p": "lower", "command": "c"},
				Plugins: pipeline.Plugins{{Source: "./local", Config: map[string]any{"deep": []any{1, true, nil, map[string]any{"k": "v"}}}}},
				Matrix:  &pipeline.Matrix{Setup: pipeline.MatrixSetup{"": {"a", "b"}}},
			}
		},
		// the anonymous dimension next to named ones, in the setup and in an adjustment
		func() *pipeline.CommandStep {
			return &pipeline.CommandStep{
				Command: "c",
				Matrix: &pipeline.Matrix{
					Setup:       pipeline.MatrixSetup{"": {"apple", "banana"}, "os": {"linux", "mac"}, "arch": {"amd64"}},
					Adjustments: pipeline.MatrixAdjustments{{With: pipeline.MatrixAdjustmentWith{"": "cherry", "os": "windows", "arch": "arm"}, Skip: true}},
				},
			}
		},
		// leftover (inline) fields of the matrix and of an adjustment named like their signed fields
		func() *pipeline.CommandStep {
			return &pipeline.CommandStep{
				Command: "c",
				Matrix: &pipeline.Matrix{
					Setup: pipeline.MatrixSetup{"os": {"linux", "mac"}, "arch": {"amd64"}},
					Adjustments: pipeline.MatrixAdjustments{{With: pipeline.MatrixAdjustmentWith{"os": "windows", "arch": "arm"}, Skip: true,
						RemainingFields: map[string]any{"with": map[string]any{"os": "inline"}, "skip": "inline", "soft_fail": true}}},
					RemainingFields: map[string]any{"setup": "see docs", "adjustments": "none", "other": 1},
				},
			}
		},
	}
}

func clone(s *pipeline.CommandStep) *pipeline.CommandStep {
	b, _ := json.Marshal(s)
	var c pipeline.CommandStep
	if err := c.UnmarshalJSON(b); err != nil {
		panic(err)
	}
	return &c
}

type mutation struct {
	name   string
	reject bool
	apply  func(s *pipeline.CommandStep, env map[string]string, url *string, sig *pipeline.Signature)
}

func mutations() []mutation {
	return []mutation{
		{"identity", false, func(*pipeline.CommandStep, map[string]string, *string, *pipeline.Signature) {}},
		{"canonical-source-spelling", false, func(s *pipeline.CommandStep, _ map[string]string, _ *string, _ *pipeline.Signature) {
			if s.Plugins[0].Source != "docker#v1" {
				panic("not applicable")
			}
			s.Plugins[0].Source = "github.com/buildkite-plugins/docker-buildkite-plugin#v1"
		}},
		{"empty-config-vs-nil", false, func(s *pipeline.CommandStep, _ map[string]string, _ *string, _ *pipeline.Signature) {
			s.Plugins[1].Config = map[string]any{}
		}},
		{"extra-unrelated-env", false, func(_ *pipeline.CommandStep, env map[string]string, _ *string, _ *pipeline.Signature) {
			env["UNRELATED"] = "x"
		}},
		{"command", true, func(s *pipeline.CommandStep, _ map[string]string, _ *string, _ *pipeline.Signature) { s.Command += " " }},
		{"step-env-value", true, func(s *pipeline.CommandStep, _ map[string]string, _ *string, _ *pipeline.Signature) { s.Env["A"] = "2" }},
		{"step-env-added", true, func(s *pipeline.CommandStep, _ map[string]string, _ *string, _ *pipeline.Signature) {
			s.Env["NEW"] = "x"
		}},
		{"step-env-removed", true, func(s *pipeline.CommandStep, _ map[string]string, _ *string, _ *pipeline.Signature) {
			delete(s.Env, "A")
		}},
		{"plugin-order", true, func(s *pipeline.CommandStep, _ map[string]string, _ *string, _ *pipeline.Signature) {
			s.Plugins[0], s.Plugins[1] = s.Plugins[1], s.Plugins[0]
		}},
		{"plugin-config", true, func(s *pipeline.CommandStep, _ map[string]string, _ *string, _ *pipeline.Signature) {
			s.Plugins[0].Config = map[string]any{"image": "ubuntu", "n": 1}
		}},
		{"plugin-ref", true, func(s *pipeline.CommandStep, _ map[string]string, _ *string, _ *pipeline.Signature) {
			s.Plugins[0].Source = "docker#v2"
		}},
		{"plugin-removed", true, func(s *pipeline.CommandStep, _ map[string]string, _ *string, _ *pipeline.Signature) {
			s.Plugins = s.Plugins[:1]
		}},
		{"matrix-value", true, func(s *pipeline.CommandStep, _ map[string]string, _ *string, _ *pipeline.Signature) {
			s.Matrix.Setup["os"][0] = "bsd"
		}},
		{"matrix-skip", true, func(s *pipeline.CommandStep, _ map[string]string, _ *string, _ *pipeline.Signature) {
			s.Matrix.Adjustments[0].Skip = false
		}},
		{"matrix-adjustment-with", true, func(s *pipeline.CommandStep, _ map[string]string, _ *string, _ *pipeline.Signature) {
			s.Matrix.Adjustments[0].With["os"] = "plan9"
		}},
		{"matrix-removed", true, func(s *pipeline.CommandStep, _ map[string]string, _ *string, _ *pipeline.Signature) { s.Matrix = nil }},
		{"repo-url", true, func(_ *pipeline.CommandStep, _ map[string]string, u *string, _ *pipeline.Signature) { *u += "/" }},
		{"pipeline-env-value", true, func(_ *pipeline.CommandStep, env map[string]string, _ *string, _ *pipeline.Signature) {
			env["P"] = "changed"
		}},
		{"pipeline-env-missing", true, func(_ *pipeline.CommandStep, env map[string]string, _ *string, _ *pipeline.Signature) {
			delete(env, "P")
		}},
		{"pipeline-env-empty-valued-missing", true, func(_ *pipeline.CommandStep, env map[string]string, _ *string, _ *pipeline.Signature) {
			delete(env, "EMPTY") // a signed variable whose value is the empty string still has to be present
		}},
		{"pipeline-env-empty-valued-changed", true, func(_ *pipeline.CommandStep, env map[string]string, _ *string, _ *pipeline.Signature) {
			env["EMPTY"] = "x"
		}},
		{"shadowed-by-empty-step-value-changed", false, func(s *pipeline.CommandStep, env map[string]string, _ *string, _ *pipeline.Signature) {
			if _, has := s.Env["BLANKED"]; !has {
				panic("not applicable")
			}
			env["BLANKED"] = "other" // the step sets BLANKED to "", which shadows the pipeline's value: not signed
		}},
		{"pipeline-env-now-shadowed", true, func(s *pipeline.CommandStep, _ map[string]string, _ *string, _ *pipeline.Signature) {
			s.Env["P"] = "pipeline"
		}},
		{"drop-mandatory-field", true, func(_ *pipeline.CommandStep, _ map[string]string, _ *string, sig *pipeline.Signature) {
			var f []string
			for _, x := range sig.SignedFields {
				if x != "matrix" {
					f = append(f, x)
				}
			}
			sig.SignedFields = f
		}},
		{"drop-signed-env-field", true, func(_ *pipeline.CommandStep, _ map[string]string, _ *string, sig *pipeline.Signature) {
			var f []string
			for _, x := range sig.SignedFields {
				if x != "env::P" {
					f = append(f, x)
				}
			}
			sig.SignedFields = f
		}},
		{"add-field", true, func(_ *pipeline.CommandStep, env map[string]string, _ *string, sig *pipeline.Signature) {
			env["EXTRA"] = "1"
			sig.SignedFields = append(append([]string{}, sig.SignedFields...), "env::EXTRA")
			sort.Strings(sig.SignedFields)
		}},
		{"env-created", true, func(s *pipeline.CommandStep, _ map[string]string, _ *string, _ *pipeline.Signature) {
			if s.Env != nil {
				panic("not applicable")
			}
			s.Env = map[string]string{"NEW": "x"}
		}},
		{"env-created-shadowing-signed-variable", true, func(s *pipeline.CommandStep, _ map[string]string, _ *string, _ *pipeline.Signature) {
			if s.Env != nil {
				panic("not applicable")
			}
			s.Env = map[string]string{"P": "pipeline"}
		}},
		{"plugins-created", true, func(s *pipeline.CommandStep, _ map[string]string, _ *string, _ *pipeline.Signature) {
			s.Plugins = append(s.Plugins, &pipeline.Plugin{Source: "extra#v1"})
		}},
		{"matrix-created", true, func(s *pipeline.CommandStep, _ map[string]string, _ *string, _ *pipeline.Signature) {
			if s.Matrix != nil {
				panic("not applicable")
			}
			s.Matrix = &pipeline.Matrix{Setup: pipeline.MatrixSetup{"": {"a"}}}
		}},
		{"matrix-dimension-added", true, func(s *pipeline.CommandStep, _ map[string]string, _ *string, _ *pipeline.Signature) {
			s.Matrix.Setup["extra"] = []string{"x"}
		}},
		{"matrix-value-order", true, func(s *pipeline.CommandStep, _ map[string]string, _ *string, _ *pipeline.Signature) {
			for _, v := range s.Matrix.Setup {
				if len(v) >= 2 {
					v[0], v[1] = v[1], v[0]
					return
				}
			}
			panic("not applicable")
		}},
		{"nested-config-element", true, func(s *pipeline.CommandStep, _ map[string]string, _ *string, _ *pipeline.Signature) {
			s.Plugins[0].Config.(map[string]any)["deep"].([]any)[3].(map[string]any)["k"] = "w"
		}},
		{"nested-config-null-to-false", true, func(s *pipeline.CommandStep, _ map[string]string, _ *string, _ *pipeline.Signature) {
			s.Plugins[0].Config.(map[string]any)["deep"].([]any)[2] = false
		}},
		{"nil-env-vs-empty", false, func(s *pipeline.CommandStep, _ map[string]string, _ *string, _ *pipeline.Signature) {
			if s.Env != nil {
				panic("not applicable")
			}
			s.Env = map[string]string{}
		}},
		{"nil-plugins-vs-empty", false, func(s *pipeline.CommandStep, _ map[string]string, _ *string, _ *pipeline.Signature) {
			if s.Plugins != nil {
				panic("not applicable")
			}
			s.Plugins = pipeline.Plugins{}
		}},
		{"nil-matrix-vs-empty", false, func(s *pipeline.CommandStep, _ map[string]string, _ *string, _ *pipeline.Signature) {
			if s.Matrix != nil {
				panic("not applicable")
			}
			s.Matrix = &pipeline.Matrix{}
		}},
		{"drop-each-mandatory-field", true, nil}, // expanded per field in TestC01
		{"algorithm-name", true, func(_ *pipeline.CommandStep, _ map[string]string, _ *string, sig *pipeline.Signature) {
			sig.Algorithm = "HS256"
		}},
	}
}

func TestC01(t *testing.T) {
	ctx := context.Background()
	cases, failures := 0, 0
	for _, kp := range keyPairs(t) {
		env := map[string]string{"P": "pipeline", "SHADOW": "pipeline", "Q": "q", "EMPTY": "", "BLANKED": "pipeline"}
		url := "git@example.com:org/repo.git"
		for bi, baseStep := range baseSteps() {
			step := baseStep()
			sig, err := signature.Sign(ctx, kp.signer, &signature.CommandStepWithInvariants{CommandStep: *step, RepositoryURL: url}, signature.WithEnv(env))
			if err != nil {
				t.Fatalf("%s: sign: %v", kp.name, err)
			}
			other := baseStep()
			other.Command = "rm -rf /"
			otherSig, _ := signature.Sign(ctx, kp.signer, &signature.CommandStepWithInvariants{CommandStep: *other, RepositoryURL: url}, signature.WithEnv(env))
			muts := mutations()
			for _, field := range []string{"command", "env", "plugins", "matrix", "repository_url"} {
				field := field
				muts = append(muts, mutation{"drop-mandatory-" + field, true, func(_ *pipeline.CommandStep, _ map[string]string, _ *string, sig *pipeline.Signature) {
					var f []string
					for _, x := range sig.SignedFields {
						if x != field {
							f = append(f, x)
						}
					}
					sig.SignedFields = f
				}})
			}
			for _, m := range muts {
				if m.apply == nil {
					continue
				}
				s2 := baseStep()
				env2 := map[string]string{}
				for k, v := range env {
					env2[k] = v
				}
				url2 := url
				sig2 := *sig
				sig2.SignedFields = append([]string{}, sig.SignedFields...)
				// (a structural dump, not json.Marshal: the marshalers are part of what is being checked)
				snapshot := func() string { return dump(reflect.ValueOf([]any{s2, env2, url2, sig2})) }
				before := snapshot()
				applicable := func() (ok bool) {
					defer func() {
						if recover() != nil {
							ok = false
						}
					}()
					m.apply(s2, env2, &url2, &sig2)
					return true
				}()
				if !applicable || (m.reject && snapshot() == before) {
					continue // the mutation does not apply to this base step
				}
				err := signature.Verify(ctx, &sig2, kp.verifier, &signature.CommandStepWithInvariants{CommandStep: *s2, RepositoryURL: url2}, signature.WithEnv(env2))
				cases++
				if bi > 0 {
					m.name = fmt.Sprintf("base %d: %s", bi, m.name)
				}
				if m.reject && err == nil {
					failures++
					t.Errorf("%s: mutation %q verified", kp.name, m.name)
				}
				if !m.reject && err != nil {
					failures++
					t.Errorf("%s: harmless change %q rejected: %v", kp.name, m.name, err)
				}
			}
			// spliced signature value from another step
			spliced := *sig
			spliced.Value = otherSig.Value
			cases++
			if signature.Verify(ctx, &spliced, kp.verifier, &signature.CommandStepWithInvariants{CommandStep: *baseStep(), RepositoryURL: url}, signature.WithEnv(env)) == nil {
				failures++
				t.Errorf("%s: spliced signature value verified", kp.name)
			}
			// another key
			cases++
			if signature.Verify(ctx, sig, kp.otherVer, &signature.CommandStepWithInvariants{CommandStep: *baseStep(), RepositoryURL: url}, signature.WithEnv(env)) == nil {
				failures++
				t.Errorf("%s: verified under a different key", kp.name)
			}
		}
	}
	// a signature that genuinely covers only some mandatory fields (made by a signer for a
	// narrower object) must be rejected for a command step however its field list is padded
	for _, kp := range keyPairs(t) {
		step := baseStep()
		full := &signature.CommandStepWithInvariants{CommandStep: *step, RepositoryURL: "url"}
		for _, drop := range []string{"repository_url", "matrix", "plugins", "env", "command"} {
			sub := &subsetFielder{inner: full, drop: drop}
			sig, err := signature.Sign(ctx, kp.signer, sub)
			if err != nil {
				t.Fatalf("sign subset: %v", err)
			}
			for _, pad := range [][]string{nil, {"command"}, {"env", "env"}, {sig.SignedFields[0], sig.SignedFields[0], sig.SignedFields[0]}} {
				s2 := *sig
				s2.SignedFields = append(append([]string{}, sig.SignedFields...), pad...)
				sort.Strings(s2.SignedFields)
				cases++
				other := baseStep()
				if drop == "command" {
					other.Command = "something else entirely"
				}
				if err := signature.Verify(ctx, &s2, kp.verifier, &signature.CommandStepWithInvariants{CommandStep: *other, RepositoryURL: "another-url"}); err == nil {
					failures++
					t.Errorf("%s: a signature that does not cover %q verified (fields %v)", kp.name, drop, s2.SignedFields)
				}
			}
		}
		// the field-list check itself: a repeated field does not stand in for a missing one
		cases++
		if _, err := full.ValuesForFields([]string{"command", "env", "matrix", "plugins", "command"}); err == nil {
			failures++
			t.Errorf("ValuesForFields accepted a field list without repository_url (command repeated)")
		}
	}
	fmt.Printf("BOUNDED name=c01-mutations cases=%d failures=%d\n", cases, failures)
}

// subsetFielder signs like the wrapped object but leaves one field out entirely.
type subsetFielder struct {
	inner *signature.CommandStepWithInvariants
	drop  string
}

func (f *subsetFielder) SignedFields() (map[string]any, error) {
	m, err := f.inner.SignedFields()
	if err != nil {
		return nil, err
	}
	delete(m, f.drop)
	return m, nil
}

func (f *subsetFielder) ValuesForFields(fields []string) (map[string]any, error) {
	all, err := f.inner.SignedFields()
	if err != nil {
		return nil, err
	}
	out := map[string]any{}
	for _, k := range fields {
		out[k] = all[k]
	}
	return out, nil
}

type capture struct{ payloads []string }

func (c *capture) Debug(f string, v ...any) {
	if strings.HasPrefix(f, "Signed Step:") {
		c.payloads = append(c.payloads, fmt.Sprintf("%s", v[0]))
	}
}

func payloadOf(t *testing.T, key signature.Key, s *pipeline.CommandStep, env map[string]string, url string) string {
	c := &capture{}
	_, err := signature.Sign(context.Background(), key, &signature.CommandStepWithInvariants{CommandStep: *s, RepositoryURL: url},
		signature.WithEnv(env), signature.WithLogger(c), signature.WithDebugSigning(true))
	if err != nil || len(c.payloads) != 1 {
		t.Fatalf("payload capture failed: %v %d", err, len(c.payloads))
	}
	return c.payloads[0]
}

func TestC14(t *testing.T) {
	kp := keyPairs(t)[0]
	cases, failures := 0, 0
	base := func() (*pipeline.CommandStep, map[string]string) {
		return baseStep(), map[string]string{"P": "pipeline", "Q": "q"}
	}
	s0, e0 := base()
	p0 := payloadOf(t, kp.signer, s0, e0, "url")
	rounds := 20
	if os.Getenv("VERIF_TIER") == "thorough" {
		rounds = 200
	}
	// must collide: repeated runs, map rebuilt in other insertion orders, nil vs empty, spellings
	for i := 0; i < rounds; i++ {
		s, e := base()
		env2 := map[string]string{}
		keys := []string{"SHADOW", "A", "BLANKED"}
		if i%2 == 0 {
			keys = []string{"BLANKED", "A", "SHADOW"}
		}
		for _, k := range keys {
			env2[k] = s.Env[k]
		}
		s.Env = env2
		if i%3 == 0 {
			s.Plugins[1].Config = map[string]any{}
			s.Plugins[0].Source = "github.com/buildkite-plugins/docker-buildkite-plugin#v1"
		}
		cases++
		if p := payloadOf(t, kp.signer, s, e, "url"); p != p0 {
			failures++
			t.Errorf("payload differs for an equivalent step (round %d)", i)
		}
	}
	// a pipeline variable the step shadows - even with an empty value - is not part of the payload
	for _, v := range []string{"one", "two"} {
		s, e := base()
		e["BLANKED"] = v
		cases++
		if p := payloadOf(t, kp.signer, s, e, "url"); p != p0 {
			failures++
			t.Errorf("payload depends on the pipeline's value of a variable the step sets to the empty string (BLANKED=%s)", v)
		}
	}
	// a pipeline env much larger than the step env, with shadowed names among the variables:
	// the payload must not depend on Go's map iteration order, nor contain a shadowed variable
	{
		big := func() map[string]string {
			e := map[string]string{"SHADOW": "pipeline", "A": "pipeline", "BLANKED": "pipeline"}
			for i := 0; i < 12; i++ {
				e[fmt.Sprintf("V%02d", i)] = fmt.Sprint(i)
			}
			return e
		}
		sb, _ := base()
		pBig := payloadOf(t, kp.signer, sb, big(), "url")
		for i := 0; i < rounds*3; i++ {
			s, _ := base()
			cases++
			p := payloadOf(t, kp.signer, s, big(), "url")
			if p != pBig {
				failures++
				t.Errorf("payload differs between two identical calls with a large pipeline env (map iteration order)")
				break
			}
			if strings.Contains(p, "env::SHADOW") || strings.Contains(p, "env::A\"") || strings.Contains(p, "env::BLANKED") {
				failures++
				t.Errorf("payload contains a pipeline variable the step shadows: %s", p)
				break
			}
		}
	}
	for _, emptyForm := range []func(*pipeline.CommandStep){
		func(s *pipeline.CommandStep) { s.Env = nil; s.Plugins = nil; s.Matrix = nil },
		func(s *pipeline.CommandStep) {
			s.Env = map[string]string{}
			s.Plugins = pipeline.Plugins{}
			s.Matrix = &pipeline.Matrix{}
		},
	} {
		s, e := base()
		emptyForm(s)
		cases++
		sNil, _ := base()
		sNil.Env, sNil.Plugins, sNil.Matrix = nil, nil, nil
		if payloadOf(t, kp.signer, s, e, "url") != payloadOf(t, kp.signer, sNil, e, "url") {
			failures++
			t.Errorf("nil and empty containers give different payloads")
		}
	}
	// must not collide: boundary shifts and single-point variants
	type variant func(*pipeline.CommandStep, map[string]string, *string)
	variants := map[string]variant{
		"cmd-to-url":           func(s *pipeline.CommandStep, _ map[string]string, u *string) { s.Command += "u"; *u = "rl" },
		"key-to-value":         func(s *pipeline.CommandStep, _ map[string]string, _ *string) { delete(s.Env, "A"); s.Env["A1"] = "" },
		"step-env-to-pipeline": func(s *pipeline.CommandStep, e map[string]string, _ *string) { delete(s.Env, "A"); e["A"] = "1" },
		"env-prefix-in-step": func(s *pipeline.CommandStep, e map[string]string, _ *string) {
			delete(e, "P")
			s.Env["env::P"] = "pipeline"
		},
		"plugin-config-key": func(s *pipeline.CommandStep, _ map[string]string, _ *string) {
			s.Plugins[0].Config = map[string]any{"imag": "ealpine", "n": 1}
		},
		"number-vs-string": func(s *pipeline.CommandStep, _ map[string]string, _ *string) {
			s.Plugins[0].Config = map[string]any{"image": "alpine", "n": "1"}
		},
		"pipeline-env-value": func(_ *pipeline.CommandStep, e map[string]string, _ *string) { e["P"] = "pipelin"; e["Q"] = "eq" },
		"matrix-mixed-dims-1": func(s *pipeline.CommandStep, _ map[string]string, _ *string) {
			s.Matrix = &pipeline.Matrix{Setup: pipeline.MatrixSetup{"": {"a", "b"}, "target": {"staging"}}, Adjustments: s.Matrix.Adjustments}
		},
		"matrix-mixed-dims-2": func(s *pipeline.CommandStep, _ map[string]string, _ *string) {
			s.Matrix = &pipeline.Matrix{Setup: pipeline.MatrixSetup{"": {"a", "b"}, "target": {"production"}}, Adjustments: s.Matrix.Adjustments}
		},
		"matrix-anon-only": func(s *pipeline.CommandStep, _ map[string]string, _ *string) {
			s.Matrix = &pipeline.Matrix{Setup: pipeline.MatrixSetup{"": {"a", "b"}}, Adjustments: s.Matrix.Adjustments}
		},
		"matrix-adjustment-with": func(s *pipeline.CommandStep, _ map[string]string, _ *string) {
			s.Matrix.Adjustments[0].With = pipeline.MatrixAdjustmentWith{"os": "win", "arch": "arm64"}
		},
		"matrix-extra-field": func(s *pipeline.CommandStep, _ map[string]string, _ *string) {
			s.Matrix.RemainingFields = map[string]any{"x": 1}
		},
	}
	seen := map[string]string{"base": p0}
	for name, v := range variants {
		s, e := base()
		u := "url"
		v(s, e, &u)
		p := payloadOf(t, kp.signer, s, e, u)
		cases++
		for other, q := range seen {
			if p == q {
				failures++
				t.Errorf("payload collision between %q and %q", name, other)
			}
		}
		seen[name] = p
	}
	// leftover fields named like the matrix's own fields never stand in for them: matrices that differ
	// in the real setup / with / skip differ in the payload whatever the leftovers say (a shadowed
	// leftover itself is invisible in every serialisation, so it may collide with its absence)
	shadow := map[string]variant{
		"matrix-shadow-setup-1": func(s *pipeline.CommandStep, _ map[string]string, _ *string) {
			s.Matrix.RemainingFields = map[string]any{"setup": "see docs", "adjustments": "none"}
		},
		"matrix-shadow-setup-2": func(s *pipeline.CommandStep, _ map[string]string, _ *string) {
			s.Matrix.RemainingFields = map[string]any{"setup": "see docs", "adjustments": "none"}
			s.Matrix.Setup["os"] = append(s.Matrix.Setup["os"], "windows")
		},
		"matrix-shadow-with-1": func(s *pipeline.CommandStep, _ map[string]string, _ *string) {
			s.Matrix.Adjustments[0].RemainingFields = map[string]any{"with": map[string]any{"os": "inline"}, "skip": "inline", "soft_fail": true}
		},
		"matrix-shadow-with-2": func(s *pipeline.CommandStep, _ map[string]string, _ *string) {
			s.Matrix.Adjustments[0].RemainingFields = map[string]any{"with": map[string]any{"os": "inline"}, "skip": "inline", "soft_fail": true}
			s.Matrix.Adjustments[0].With = pipeline.MatrixAdjustmentWith{"os": "plan9", "arch": "arm"}
		},
		"matrix-shadow-with-3": func(s *pipeline.CommandStep, _ map[string]string, _ *string) {
			s.Matrix.Adjustments[0].RemainingFields = map[string]any{"with": map[string]any{"os": "inline"}, "skip": "inline", "soft_fail": true}
			s.Matrix.Adjustments[0].Skip = "another reason"
		},
	}
	seenShadow := map[string]string{}
	for name, v := range shadow {
		s, e := base()
		u := "url"
		v(s, e, &u)
		p := payloadOf(t, kp.signer, s, e, u)
		cases++
		for other, q := range seenShadow {
			if p == q && name[:len(name)-1] == other[:len(other)-1] {
				failures++
				t.Errorf("payload collision between %q and %q", name, other)
			}
		}
		seenShadow[name] = p
	}
	// the payload of a step does not depend on the steps signed before it in the same SignSteps call
	// (one set of options serves every step): same signed-field list and - the key being EdDSA,
	// which is deterministic - same signature value as when the step is signed on its own
	{
		ctx := context.Background()
		env := map[string]string{"DEPLOY": "1", "REGION": "eu", "P": "v"}
		target := func() *pipeline.CommandStep { return &pipeline.CommandStep{Command: "make release"} }
		g := "grp"
		alone := pipeline.Steps{target()}
		after := pipeline.Steps{
			&pipeline.CommandStep{Command: "first", Env: map[string]string{"DEPLOY": "step", "P": ""}},
			&pipeline.GroupStep{Group: &g, Steps: pipeline.Steps{&pipeline.CommandStep{Command: "second", Env: map[string]string{"REGION": "x"}}, target()}},
			target(),
		}
		cases++
		if err := signature.SignSteps(ctx, alone, kp.signer, "repo", signature.WithEnv(env)); err != nil {
			t.Fatal(err)
		}
		if err := signature.SignSteps(ctx, after, kp.signer, "repo", signature.WithEnv(env)); err != nil {
			t.Fatal(err)
		}
		want := alone[0].(*pipeline.CommandStep).Signature
		for _, got := range []*pipeline.Signature{after[2].(*pipeline.CommandStep).Signature, after[1].(*pipeline.GroupStep).Steps[1].(*pipeline.CommandStep).Signature} {
			if !reflect.DeepEqual(got.SignedFields, want.SignedFields) || (kp.name == "EdDSA" && got.Value != want.Value) {
				failures++
				t.Errorf("the same step signed alone and after siblings that shadow pipeline variables: fields %v / %v", want.SignedFields, got.SignedFields)
			}
		}
		if len(env) != 3 || env["DEPLOY"] != "1" {
			failures++
			t.Errorf("SignSteps modified the caller's env map: %v", env)
		}
	}
	fmt.Printf("BOUNDED name=c14-payloads cases=%d failures=%d\n", cases, failures)
}

// genSteps builds a step tree; unkAt >= 0 places an unknown step at the END of
// the list at nesting level unkAt (after any groups), along the first-group
// path (lastPath=false) or the last-group path (lastPath=true).
func genSteps(depth, seed, level, unkAt int, lastPath bool) pipeline.Steps {
	var out pipeline.Steps
	n := 2 + seed%2
	var groups []int
	for i := 0; i < n; i++ {
		switch (seed + i) % 4 {
		case 0:
			out = append(out, &pipeline.CommandStep{Command: fmt.Sprintf("echo %d-%d", depth, i), Env: map[string]string{"SHADOW": "s", "BLANK": ""}})
		case 1:
			out = append(out, &pipeline.WaitStep{Scalar: "wait"})
		case 2:
			if depth > 0 {
				groups = append(groups, len(out))
				out = append(out, nil) // filled below
			} else {
				out = append(out, &pipeline.InputStep{Scalar: "block"})
			}
		case 3:
			out = append(out, &pipeline.TriggerStep{Contents: map[string]any{"trigger": "x"}})
		}
	}
	if depth > 0 && len(groups) == 0 {
		groups = append(groups, len(out))
		out = append(out, nil)
	}
	for gi, pos := range groups {
		onPath := (gi == 0 && !lastPath) || (gi == len(groups)-1 && lastPath)
		sub := -1
		if onPath {
			sub = unkAt
		}
		g := "g"
		out[pos] = &pipeline.GroupStep{Group: &g, Steps: genSteps(depth-1, seed+pos+1, level+1, sub, lastPath)}
	}
	if unkAt == level {
		out = append(out, &pipeline.UnknownStep{Contents: "mystery"})
	}
	return out
}

func walk(s pipeline.Steps, f func(*pipeline.CommandStep)) {
	for _, st := range s {
		switch x := st.(type) {
		case *pipeline.CommandStep:
			f(x)
		case *pipeline.GroupStep:
			walk(x.Steps, f)
		}
	}
}

func TestC06(t *testing.T) {
	ctx := context.Background()
	cases, failures := 0, 0
	kps := keyPairs(t)
	maxSeed := 6
	if os.Getenv("VERIF_TIER") == "thorough" {
		maxSeed = 40
	}
	for _, kp := range kps {
		for depth := 0; depth <= 4; depth++ {
			for seed := 0; seed < maxSeed; seed++ {
				for unkAt := -1; unkAt <= depth; unkAt++ {
					for _, lastPath := range []bool{false, true} {
						if unkAt < 0 && lastPath {
							continue
						}
						steps := genSteps(depth, seed, 0, unkAt, lastPath)
						env := map[string]string{"P": "v", "SHADOW": "pipeline", "BLANK": "pipeline", "Q1": "1", "Q2": "2", "Q3": "3", "Q4": "4"}
						envBefore := map[string]string{"P": "v", "SHADOW": "pipeline", "BLANK": "pipeline", "Q1": "1", "Q2": "2", "Q3": "3", "Q4": "4"}
						before, _ := json.Marshal(steps)
						err := signature.SignSteps(ctx, steps, kp.signer, "repo", signature.WithEnv(env))
						cases++
						hasUnknown := strings.Contains(string(before), "mystery")
						if hasUnknown {
							if err == nil {
								failures++
								t.Errorf("%s depth %d seed %d: unknown step present but SignSteps succeeded", kp.name, depth, seed)
							}
							continue
						}
						if err != nil {
							failures++
							t.Errorf("%s depth %d seed %d: %v", kp.name, depth, seed, err)
							continue
						}
						if !reflect.DeepEqual(env, envBefore) {
							failures++
							t.Errorf("SignSteps modified the caller's env map")
						}
						walk(steps, func(c *pipeline.CommandStep) {
							if c.Signature == nil {
								failures++
								t.Errorf("%s depth %d seed %d: unsigned command step %q", kp.name, depth, seed, c.Command)
								return
							}
							want := []string{"command", "env", "env::P", "env::Q1", "env::Q2", "env::Q3", "env::Q4", "matrix", "plugins", "repository_url"}
							if !reflect.DeepEqual(c.Signature.SignedFields, want) {
								failures++
								t.Errorf("signed fields %v, want %v", c.Signature.SignedFields, want)
							}
							if c.Signature.Algorithm != kp.signer.Algorithm().String() {
								failures++
								t.Errorf("algorithm %q", c.Signature.Algorithm)
							}
							if err := signature.Verify(ctx, c.Signature, kp.verifier, &signature.CommandStepWithInvariants{CommandStep: *c, RepositoryURL: "repo"}, signature.WithEnv(env)); err != nil {
								failures++
								t.Errorf("signature does not verify: %v", err)
							}
							c.Signature = nil
						})
						after, _ := json.Marshal(steps)
						if string(after) != string(before) {
							failures++
							t.Errorf("SignSteps changed more than signatures")
						}
					}
				}
			}
		}
	}
	// near-twin steps in one call (some inside a group): steps that are equal, or that differ only
	// where a flattened rendering (joined with newlines, "=", commas or NULs) cannot see it. Each must
	// carry its own verifying signature over its own field list.
	twins := func() pipeline.Steps {
		g := "g"
		mk := func(cmd string, env map[string]string, plugins pipeline.Plugins, m *pipeline.Matrix) *pipeline.CommandStep {
			return &pipeline.CommandStep{Command: cmd, Env: env, Plugins: plugins, Matrix: m}
		}
		inner := pipeline.Steps{
			mk("make", map[string]string{"CFLAGS": "-O2", "DEPLOY": "1"}, nil, nil),
			mk("make", map[string]string{"A": "B=c"}, nil, nil),
			mk("a", map[string]string{"b": ""}, nil, nil),
			mk("x", nil, pipeline.Plugins{{Source: "docker#v1", Config: map[string]any{"a": "1"}}}, nil),
			mk("x", nil, nil, &pipeline.Matrix{Setup: pipeline.MatrixSetup{"os": {"a,b"}}}),
			mk("same", map[string]string{"K": "v"}, nil, nil),
			mk("make", nil, nil, nil),
		}
		return pipeline.Steps{
			mk("make", map[string]string{"CFLAGS": "-O2\nDEPLOY=1"}, nil, nil),
			mk("make", map[string]string{"A=B": "c"}, nil, nil),
			mk("a\x00b", nil, nil, nil),
			mk("x", nil, pipeline.Plugins{{Source: "docker#v1", Config: map[string]any{"a": 1}}}, nil),
			mk("x", nil, nil, &pipeline.Matrix{Setup: pipeline.MatrixSetup{"os": {"a", "b"}}}),
			mk("same", map[string]string{"K": "v"}, nil, nil),
			mk("make", map[string]string{"P": "v"}, nil, nil),
			&pipeline.GroupStep{Group: &g, Steps: inner},
		}
	}
	for _, kp := range kps {
		steps := twins()
		env := map[string]string{"P": "v", "DEPLOY": "1", "A": "z"}
		cases++
		if err := signature.SignSteps(ctx, steps, kp.signer, "repo", signature.WithEnv(env)); err != nil {
			failures++
			t.Errorf("%s: near-twin steps: %v", kp.name, err)
			continue
		}
		walk(steps, func(c *pipeline.CommandStep) {
			cases++
			if c.Signature == nil {
				failures++
				t.Errorf("%s: near-twin step %q env %v is unsigned", kp.name, c.Command, c.Env)
				return
			}
			want := []string{"command", "env", "matrix", "plugins", "repository_url"}
			for k := range env {
				if _, shadowed := c.Env[k]; !shadowed {
					want = append(want, "env::"+k)
				}
			}
			sort.Strings(want)
			if !reflect.DeepEqual(c.Signature.SignedFields, want) {
				failures++
				t.Errorf("%s: near-twin step %q env %v: signed fields %v, want %v", kp.name, c.Command, c.Env, c.Signature.SignedFields, want)
			}
			if err := signature.Verify(ctx, c.Signature, kp.verifier, &signature.CommandStepWithInvariants{CommandStep: *c, RepositoryURL: "repo"}, signature.WithEnv(env)); err != nil {
				failures++
				t.Errorf("%s: near-twin step %q env %v: signature does not verify: %v", kp.name, c.Command, c.Env, err)
			}
		})
	}
	// groups carved out of one flat list (their Steps slices share a backing array and the earlier
	// ones have spare capacity): signing must not move steps around, and every command step is signed
	for _, kp := range kps {
		mkFlat := func() (pipeline.Steps, []*pipeline.CommandStep) {
			g1, g2 := "outer", "inner"
			c := make([]*pipeline.CommandStep, 6)
			for i := range c {
				c[i] = &pipeline.CommandStep{Command: fmt.Sprintf("cmd-%d", i)}
			}
			inner := &pipeline.GroupStep{Group: &g2}
			flat := pipeline.Steps{c[0], inner, c[2], c[3], c[4]}
			outer := &pipeline.GroupStep{Group: &g1, Steps: flat[0:2]}
			inner.Steps = flat[2:4]
			return pipeline.Steps{outer, c[5], &pipeline.GroupStep{Group: &g1, Steps: flat[4:5:5]}}, c
		}
		steps, cmds := mkFlat()
		twin, _ := mkFlat()
		cases++
		if err := signature.SignSteps(ctx, steps, kp.signer, "repo"); err != nil {
			failures++
			t.Errorf("%s: groups sharing a backing array: %v", kp.name, err)
			continue
		}
		for i, c := range cmds {
			if i == 1 {
				continue // slot 1 of the flat list holds the inner group
			}
			if c.Signature == nil {
				failures++
				t.Errorf("%s: groups sharing a backing array: command step %q left unsigned", kp.name, c.Command)
			}
			c.Signature = nil
		}
		a, _ := json.Marshal(steps)
		b, _ := json.Marshal(twin)
		if string(a) != string(b) {
			failures++
			t.Errorf("%s: groups sharing a backing array: signing moved steps\n got %s\nwant %s", kp.name, a, b)
		}
	}
	fmt.Printf("BOUNDED name=c06-trees cases=%d failures=%d\n", cases, failures)
}

var _ jwk.Key

// dump renders a value structurally (pointers followed, map keys sorted, nil kept apart from empty).
func dump(v reflect.Value) string {
	switch v.Kind() {
	case reflect.Invalid:
		return "<invalid>"
	case reflect.Pointer, reflect.Interface:
		if v.IsNil() {
			return "nil"
		}
		return "&" + dump(v.Elem())
	case reflect.Struct:
		var sb strings.Builder
		sb.WriteString(v.Type().Name() + "{")
		for i := 0; i < v.NumField(); i++ {
			sb.WriteString(v.Type().Field(i).Name + ":" + dump(v.Field(i)) + ",")
		}
		return sb.String() + "}"
	case reflect.Map:
		if v.IsNil() {
			return "nil-map"
		}
		var parts []string
		for _, k := range v.MapKeys() {
			parts = append(parts, dump(k)+"=>"+dump(v.MapIndex(k)))
		}
		sort.Strings(parts)
		return "map[" + strings.Join(parts, ",") + "]"
	case reflect.Slice:
		if v.IsNil() {
			return "nil-slice"
		}
		fallthrough
	case reflect.Array:
		var parts []string
		for i := 0; i < v.Len(); i++ {
			parts = append(parts, dump(v.Index(i)))
		}
		return "[" + strings.Join(parts, ",") + "]"
	case reflect.String:
		return fmt.Sprintf("%q", v.String())
	}
	if v.CanInterface() {
		return fmt.Sprintf("%v", v.Interface())
	}
	return fmt.Sprintf("%v", v)
}
