package findings

import (
	"encoding/json"
	"fmt"
	"strings"
	"testing"

	pipeline "github.com/buildkite/go-pipeline"
)

// F33: Plugin.FullSource cleans the ref together with the path (path.Join) and works on the
// percent-decoded path, so for sources outside C17's documented grammar it is neither idempotent
// nor injective.

func pluginSourceWitness(r *report) {
	for _, src := range []string{"thing#a/../../x", "%2e/x"} {
		once := (&pipeline.Plugin{Source: src}).FullSource()
		twice := (&pipeline.Plugin{Source: once}).FullSource()
		r.cases++
		if once != twice {
			r.shows("plugin-source-outside-the-documented-grammar", fmt.Sprintf("FullSource(%q) = %q, and FullSource of that = %q", src, once, twice))
		}
	}
}

func TestC09PluginSource(t *testing.T) {
	r := newReport(t, "C09")
	pluginSourceWitness(r)
	// the marshalled plugin list is not a fixpoint of parse -> marshal
	p := parse(t, "steps:\n  - command: x\n    plugins: [\"thing#a/../../x\"]\n")
	j1, _ := json.Marshal(p)
	p2, _ := pipeline.Parse(strings.NewReader(string(j1)))
	r.cases++
	if p2 != nil {
		if j2, _ := json.Marshal(p2); string(j1) != string(j2) {
			r.shows("plugin-source-outside-the-documented-grammar", fmt.Sprintf("%s then %s", j1, j2))
		}
	}
	r.done("c09-findings-plugin-source")
}

func TestC14PluginSource(t *testing.T) {
	r := newReport(t, "C14")
	a := &pipeline.CommandStep{Command: "c", Plugins: pipeline.Plugins{{Source: "docker#x/../../evil/y-buildkite-plugin"}}}
	b := &pipeline.CommandStep{Command: "c", Plugins: pipeline.Plugins{{Source: "evil/y"}}}
	r.cases++
	if crossVerifies(t, a, b) {
		r.shows("plugin-source-outside-the-documented-grammar", "the plugin sources docker#x/../../evil/y-buildkite-plugin and evil/y are signed as the same canonical source")
	}
	r.done("c14-findings-plugin-source")
}
