package findings

// Witnesses of the open known findings that the audit round produced (DESIGN
// section 8, F22-F32 and the extension of F15). One test per property; each
// witness runs the exact input of a finding on the real code. While the
// defect is there and /verif/known_findings.txt lists it as open, the test
// prints "KNOWN-FINDING: property=<id> <what fails>" and passes; if the defect
// shows but is not listed, the test fails (a violation); if it no longer
// shows (repaired upstream) nothing is printed. Not proof of anything: these
// are single inputs.

import (
	"bytes"
	"context"
	"encoding/json"
	"fmt"
	"os"
	"reflect"
	"strings"
	"testing"

	pipeline "github.com/buildkite/go-pipeline"
	"github.com/buildkite/go-pipeline/jwkutil"
	"github.com/buildkite/go-pipeline/ordered"
	"github.com/buildkite/go-pipeline/signature"
	"github.com/lestrrat-go/jwx/v2/jwa"
	"github.com/lestrrat-go/jwx/v2/jwk"
	"gopkg.in/yaml.v3"
)

func knownOpen(prop, witness string) (what string, ok bool) {
	dir := os.Getenv("VERIF_DIR")
	if dir == "" {
		dir = "/verif"
	}
	data, err := os.ReadFile(dir + "/known_findings.txt")
	if err != nil {
		return "", false
	}
	for _, line := range strings.Split(string(data), "\n") {
		line = strings.TrimSpace(line)
		if strings.HasPrefix(line, "open:") && strings.Contains(line, "property="+prop+" ") && strings.Contains(line, "witness="+witness+" ") {
			if i := strings.Index(line, "::"); i >= 0 {
				return strings.TrimSpace(line[i+2:]), true
			}
			return line, true
		}
	}
	return "", false
}

type report struct {
	t        *testing.T
	prop     string
	cases    int
	failures int
	printed  map[string]bool
}

func newReport(t *testing.T, prop string) *report {
	return &report{t: t, prop: prop, printed: map[string]bool{}}
}

// shows records that the defect behind witness manifested (detail says how).
func (r *report) shows(witness, detail string) {
	if what, ok := knownOpen(r.prop, witness); ok {
		if !r.printed[witness] {
			fmt.Printf("KNOWN-FINDING: property=%s %s\n", r.prop, what)
		}
		r.printed[witness] = true
		return
	}
	r.failures++
	r.t.Errorf("%s: %s", witness, detail)
}

func (r *report) done(name string) {
	fmt.Printf("BOUNDED name=%s cases=%d failures=%d\n", name, r.cases, r.failures)
}

func parse(t *testing.T, doc string) *pipeline.Pipeline {
	p, err := pipeline.Parse(strings.NewReader(doc))
	if p == nil {
		t.Fatalf("parse: %v\n%s", err, doc)
	}
	return p
}

func firstCommand(p *pipeline.Pipeline) *pipeline.CommandStep {
	for _, s := range p.Steps {
		if c, ok := s.(*pipeline.CommandStep); ok {
			return c
		}
	}
	return nil
}

type mapEnv map[string]string

func (e mapEnv) Get(k string) (string, bool) { v, ok := e[k]; return v, ok }
func (e mapEnv) Set(k, v string)             { e[k] = v }

func keyPair(t *testing.T) (jwk.Key, jwk.Set) {
	priv, pub, err := jwkutil.NewKeyPair("k", jwa.EdDSA)
	if err != nil {
		t.Fatal(err)
	}
	k, _ := priv.Key(0)
	return k, pub
}

// signedWith: the signature of step a verifies on step b?
func crossVerifies(t *testing.T, a, b *pipeline.CommandStep) bool {
	ctx := context.Background()
	k, pub := keyPair(t)
	sig, err := signature.Sign(ctx, k, &signature.CommandStepWithInvariants{CommandStep: *a, RepositoryURL: "repo"})
	if err != nil {
		t.Fatalf("sign: %v", err)
	}
	return signature.Verify(ctx, sig, pub, &signature.CommandStepWithInvariants{CommandStep: *b, RepositoryURL: "repo"}) == nil
}

const skipDoc = "steps:\n  - command: echo {{matrix}}\n    matrix:\n      setup: [a, b]\n      adjustments:\n        - with: b\n          skip: %s\n"

// ---- C01, C14: changes of signed content that leave the signed payload unchanged ----

func signedContentWitnesses(t *testing.T, r *report) {
	// F22: an empty skip reason counts as "skip" but is left out of the JSON that is signed
	a := firstCommand(parse(t, fmt.Sprintf(skipDoc, "false")))
	b := firstCommand(parse(t, fmt.Sprintf(skipDoc, `""`)))
	r.cases++
	if a.Matrix.Adjustments[0].ShouldSkip() != b.Matrix.Adjustments[0].ShouldSkip() && crossVerifies(t, a, b) {
		r.shows("empty-skip-reason", `skip: false and skip: "" differ in ShouldSkip, yet the signature of one verifies on the other`)
	}
	// F23: integers above 2^53 collapse in the canonical payload
	const big = "steps:\n  - command: deploy\n    plugins:\n      - notify#v1: {channel_id: %s}\n"
	a = firstCommand(parse(t, fmt.Sprintf(big, "9007199254740993")))
	b = firstCommand(parse(t, fmt.Sprintf(big, "9007199254740992")))
	r.cases++
	if !reflect.DeepEqual(a.Plugins[0].Config, b.Plugins[0].Config) && crossVerifies(t, a, b) {
		r.shows("integer-above-2-53", "plugin configs 9007199254740993 and 9007199254740992 differ, yet the signature of one verifies on the other")
	}
}

func TestC01(t *testing.T) {
	r := newReport(t, "C01")
	signedContentWitnesses(t, r)
	r.done("c01-findings")
}

func TestC14(t *testing.T) {
	r := newReport(t, "C14")
	signedContentWitnesses(t, r)
	r.done("c14-findings")
}

// ---- C11 ----

func TestC11(t *testing.T) {
	r := newReport(t, "C11")
	c := firstCommand(parse(t, fmt.Sprintf(skipDoc, `""`)))
	errBefore := c.InterpolateMatrixPermutation(pipeline.MatrixPermutation{"": "b"})
	c = firstCommand(parse(t, fmt.Sprintf(skipDoc, `""`)))
	j, _ := json.Marshal(c)
	var back pipeline.CommandStep
	if err := json.Unmarshal(j, &back); err != nil {
		t.Fatalf("unmarshal: %v", err)
	}
	errAfter := back.InterpolateMatrixPermutation(pipeline.MatrixPermutation{"": "b"})
	r.cases++
	if (errBefore == nil) != (errAfter == nil) {
		r.shows("empty-skip-reason", fmt.Sprintf("the verdict on permutation b changes across a JSON round trip of the step: %v then %v", errBefore, errAfter))
	}
	r.done("c11-findings")
}

// ---- C09 ----

func TestC09(t *testing.T) {
	r := newReport(t, "C09")
	jsonOf := func(p *pipeline.Pipeline) string { b, _ := json.Marshal(p); return string(b) }
	legs := func(doc string) (first, viaJSON, viaYAML string, kinds [3]string) {
		p := parse(t, doc)
		first = jsonOf(p)
		kinds[0] = fmt.Sprintf("%T", p.Steps[0])
		if pj, _ := pipeline.Parse(strings.NewReader(first)); pj != nil {
			viaJSON, kinds[1] = jsonOf(pj), fmt.Sprintf("%T", pj.Steps[0])
		}
		y, _ := yaml.Marshal(p)
		if py, _ := pipeline.Parse(bytes.NewReader(y)); py != nil {
			viaYAML, kinds[2] = jsonOf(py), fmt.Sprintf("%T", py.Steps[0])
		}
		return
	}
	// F22: the JSON leg drops an empty skip reason, the YAML leg keeps it
	{
		p := parse(t, fmt.Sprintf(skipDoc, `""`))
		j, _ := json.Marshal(p)
		y, _ := yaml.Marshal(p)
		pj, _ := pipeline.Parse(bytes.NewReader(j))
		py, _ := pipeline.Parse(bytes.NewReader(y))
		r.cases++
		if pj != nil && py != nil && firstCommand(pj).Matrix.Adjustments[0].ShouldSkip() != firstCommand(py).Matrix.Adjustments[0].ShouldSkip() {
			r.shows("empty-skip-reason", "the pipelines re-parsed from the JSON and from the YAML output disagree on ShouldSkip")
		}
	}
	// F26: a YAML timestamp is retyped on the JSON leg only (and a typed field turns the step unknown first)
	{
		_, _, _, kinds := legs("steps:\n  - command: x\n    label: 2002-08-15\n")
		r.cases++
		if kinds[0] != kinds[1] || kinds[0] != kinds[2] {
			r.shows("yaml-timestamp", fmt.Sprintf("label: 2002-08-15 - step kinds first / JSON leg / YAML leg: %v", kinds))
		}
	}
	// F32: a disabled cache with other settings loses them in JSON
	{
		p := parse(t, "steps:\n  - command: x\n    cache: {disabled: true, paths: [a], name: n}\n")
		j, _ := json.Marshal(p)
		y, _ := yaml.Marshal(p)
		pj, _ := pipeline.Parse(bytes.NewReader(j))
		py, _ := pipeline.Parse(bytes.NewReader(y))
		r.cases++
		if pj != nil && py != nil && !reflect.DeepEqual(firstCommand(pj).Cache, firstCommand(py).Cache) {
			r.shows("disabled-cache-with-settings", fmt.Sprintf("cache re-parsed from JSON %+v, from YAML %+v", firstCommand(pj).Cache, firstCommand(py).Cache))
		}
	}
	// F28: a signature without signed_fields is null in JSON and [] in YAML
	{
		_, viaJSON, viaYAML, _ := legs("steps:\n  - command: x\n    signature: {algorithm: a, value: v}\n")
		r.cases++
		if viaJSON != viaYAML {
			r.shows("signature-without-signed-fields", fmt.Sprintf("JSON leg %s, YAML leg %s", viaJSON, viaYAML))
		}
	}
	// F31: YAML output is not deterministic for plain-map keys holding non-ASCII digits (yaml.v3's key sorter)
	{
		p := parse(t, "steps:\n  - command: x\n    \"0٣٣\": 1\n    \"٣00\": 2\n    \"٣٣\": 3\n")
		seen := map[string]bool{}
		for i := 0; i < 300; i++ {
			y, _ := yaml.Marshal(p)
			seen[string(y)] = true
		}
		r.cases++
		if len(seen) > 1 {
			r.shows("yaml-key-order-non-ascii-digits", fmt.Sprintf("yaml.Marshal of one pipeline gave %d distinct outputs over 300 runs", len(seen)))
		}
	}
	r.done("c09-findings")
}

// ---- C04, C12: keys of a plain Go map that collide after interpolation ----

func TestC04(t *testing.T) {
	r := newReport(t, "C04")
	seen := map[string]bool{}
	for i := 0; i < 300; i++ {
		p := parse(t, "steps:\n  - command: echo\n    \"$A\": first\n    foo: second\n")
		if err := p.Interpolate(mapEnv{"A": "foo"}, false); err != nil {
			t.Fatal(err)
		}
		j, _ := json.Marshal(p)
		seen[string(j)] = true
	}
	r.cases++
	if len(seen) > 1 {
		r.shows("interpolated-keys-collide", fmt.Sprintf("the same document and environment gave %d different pipelines over 300 runs", len(seen)))
	}
	r.done("c04-findings")
}

func TestC12(t *testing.T) {
	r := newReport(t, "C12")
	seen := map[string]bool{}
	for i := 0; i < 300; i++ {
		c := firstCommand(parse(t, "steps:\n  - command: echo\n    matrix: [x]\n    \"u-{{matrix}}\": \"first {{matrix}}\"\n    \"u-x\": \"second {{matrix}}\"\n"))
		if err := c.InterpolateMatrixPermutation(pipeline.MatrixPermutation{"": "x"}); err != nil {
			t.Fatal(err)
		}
		j, _ := json.Marshal(c)
		seen[string(j)] = true
	}
	r.cases++
	if len(seen) > 1 {
		r.shows("interpolated-keys-collide", fmt.Sprintf("the same step and permutation gave %d different results over 300 runs", len(seen)))
	}
	r.done("c12-findings")
}

// ---- C06 ----

func TestC06(t *testing.T) {
	r := newReport(t, "C06")
	ctx := context.Background()
	priv, pub, err := jwkutil.NewKeyPair("", jwa.EdDSA) // a key without a key id; Validate accepts it
	if err != nil {
		t.Fatal(err)
	}
	k, _ := priv.Key(0)
	steps := pipeline.Steps{&pipeline.CommandStep{Command: "echo"}}
	r.cases++
	if jwkutil.Validate(k) == nil && signature.SignSteps(ctx, steps, k, "repo") == nil {
		c := steps[0].(*pipeline.CommandStep)
		if err := signature.Verify(ctx, c.Signature, pub, &signature.CommandStepWithInvariants{CommandStep: *c, RepositoryURL: "repo"}); err != nil {
			r.shows("key-without-kid", "SignSteps succeeds with a validated key that has no kid, but the signature does not verify with the public key set: "+err.Error())
		}
	}
	r.done("c06-findings")
}

// ---- C03 ----

func TestC03(t *testing.T) {
	r := newReport(t, "C03")
	// F26: a YAML timestamp among the env values makes the whole parse fail
	_, err := pipeline.Parse(strings.NewReader("env: {D: 2024-01-01}\nsteps: [{command: a}]\n"))
	r.cases++
	if err != nil {
		r.shows("yaml-timestamp", "env: {D: 2024-01-01} - Parse fails: "+err.Error())
	}
	// F28: an unknown key inside signature is dropped
	p := parse(t, "steps:\n  - command: a\n    signature: {algorithm: x, signed_fields: [command], value: v, extra: 4}\n")
	j, _ := json.Marshal(p)
	r.cases++
	if !strings.Contains(string(j), `"extra"`) {
		r.shows("signature-extra-key", "signature: {..., extra: 4} - the key is gone from the output: "+string(j))
	}
	// F29: valid JSON that the YAML library (used as the JSON parser) rejects
	for _, doc := range []string{`{"steps":[{"command":"bin\/test"}]}`, `{"steps":[{"command":"a","label":"\ud83d\ude80"}]}`} {
		r.cases++
		if !json.Valid([]byte(doc)) {
			t.Fatalf("witness is not valid JSON: %s", doc)
		}
		if _, err := pipeline.Parse(strings.NewReader(doc)); err != nil {
			r.shows("json-read-by-yaml-parser", "valid JSON "+doc+" - Parse fails: "+err.Error())
		}
	}
	r.done("c03-findings")
}

// ---- C13 ----

func TestC13(t *testing.T) {
	r := newReport(t, "C13")
	p, err := pipeline.Parse(strings.NewReader("steps:\n  - command: x\n    when: 2001-01-01T00:00:00+24:00\n"))
	r.cases++
	if err == nil && p != nil {
		if _, jerr := json.Marshal(p); jerr != nil {
			r.shows("yaml-timestamp", "when: 2001-01-01T00:00:00+24:00 - Parse succeeds, json.Marshal fails: "+jerr.Error())
		}
	}
	r.done("c13-findings")
}

// ---- C16 ----

type FInner struct {
	X int `yaml:"x"`
}
type fPtrOuter struct {
	A       int `yaml:"a"`
	*FInner `yaml:",inline"`
}
type FMid2 struct {
	M       int `yaml:"m"`
	FInner2 `yaml:",inline"`
}
type FInner2 struct {
	I int `yaml:"i"`
}
type fNested struct {
	O     int `yaml:"o"`
	FMid2 `yaml:",inline"`
}
type fFloat struct {
	F float64 `yaml:"f"`
}
type fShared struct {
	Name  string `yaml:"name"`
	Label string `yaml:"label" aliases:"name"`
}

func TestC16(t *testing.T) {
	r := newReport(t, "C16")
	decode := func(doc string, into any) (err error) {
		defer func() {
			if p := recover(); p != nil {
				err = fmt.Errorf("panic: %v", p)
			}
		}()
		var n yaml.Node
		if e := yaml.Unmarshal([]byte(doc), &n); e != nil {
			t.Fatal(e)
		}
		return ordered.Unmarshal(&n, into)
	}
	check := func(doc string, mk func() any) {
		ref, got := mk(), mk()
		r.cases++
		if yaml.Unmarshal([]byte(doc), ref) != nil {
			return // not a document the reference decoder accepts
		}
		err := decode(doc, got)
		if err != nil || !reflect.DeepEqual(ref, got) {
			r.shows("struct-shapes-unused-by-the-library", fmt.Sprintf("%T from %q: ordered.Unmarshal gives %+v (err %v), yaml.v3 gives %+v", got, doc, got, err, ref))
		}
	}
	check("a: 1\nx: 2\n", func() any { return &fPtrOuter{} })     // embedded inline pointer to struct
	check("o: 1\nm: 2\ni: 3\n", func() any { return &fNested{} }) // inline struct inside an inline struct
	check("f: 1\n", func() any { return &fFloat{} })              // an integer literal for a float field
	var sh fShared
	r.cases++
	if err := decode("name: n\n", &sh); err != nil || sh.Name != "n" || sh.Label != "" {
		r.shows("key-claimed-twice", fmt.Sprintf("struct{Name `yaml:\"name\"`; Label `yaml:\"label\" aliases:\"name\"`} from \"name: n\": %+v (err %v) - the key name fills both fields", sh, err))
	}
	r.done("c16-findings")
}

// ---- C08 ----

func TestC08(t *testing.T) {
	r := newReport(t, "C08")
	p := parse(t, "env:\n  1000000.1: a\n  mid: m\n  1000000.2: b\nsteps: [{command: x}]\n")
	r.cases++
	if p.Env.Len() != 3 {
		r.shows("float-keys-collapse", fmt.Sprintf("env with the keys 1000000.1, mid, 1000000.2 has %d entries after parsing", p.Env.Len()))
	}
	long := strings.Repeat("k", 1100)
	m := ordered.NewMap[string, any](0)
	m.Set(long, 1)
	j, _ := json.Marshal(m)
	back := ordered.NewMap[string, any](0)
	r.cases++
	if err := json.Unmarshal(j, back); err != nil {
		r.shows("json-read-by-yaml-parser", "an ordered map with a key of 1100 characters cannot decode its own JSON encoding: "+err.Error())
	}
	r.done("c08-findings")
}

// ---- C05 ----

func TestC05(t *testing.T) {
	r := newReport(t, "C05")
	m := ordered.NewMap[string, string](0)
	m.Set("\na", "\n\nx")
	m.Set("a", "\n")
	y, err := yaml.Marshal(m)
	r.cases++
	back := ordered.NewMap[string, string](0)
	if err != nil || yaml.Unmarshal(y, back) != nil || !ordered.Equal(m, back) {
		r.shows("yaml-multiline-leading-whitespace", fmt.Sprintf("an ordered map with the keys %q and %q encodes to YAML as %q (err %v), which does not read back as the same map", "\na", "a", y, err))
	}
	r.done("c05-findings")
}
