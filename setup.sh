#!/bin/sh
# Build the verification engine from files on disk only (offline).
set -e
cd "$(dirname "$0")/engine"
export GOFLAGS=-mod=vendor GOPROXY=off GOSUMDB=off GOTOOLCHAIN=local CGO_ENABLED=0
mkdir -p ../bin
go build -o ../bin/gowp ./cmd/gowp
echo "gowp built"
